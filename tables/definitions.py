"""Documented definitions, transcribed independently of the implementation (C02).

Each row: (module, signature name, parameter names after lib, tuple of output expressions, rules, source).
Expressions are written in a tiny term language: + - * / **, sqrt, abs, sin, cos, tan, sinh, exp, log, arctan2,
arccos, arcsinh, arctan, maximum, minimum, copysign, sign, pi, wrap(a) = (a + pi) % (2 pi) - pi.
`rules` names the optional normal-form rules the comparison may use (all are identities on the stated domain):
  nan_to_num_id   nan_to_num(e) = e for finite e          angle_addition  cos/sin of sums
  exp_neg         exp(-a) = 1/exp(a)
Sources: docstrings of VectorProtocol* in src/vector/_methods.py (quoted by method), docs/index.md
("(-,-,-,+) metric", "active transformations"), README coordinate definitions.
"""

ROWS = [
    # ---- planar accessors -------------------------------------------------------------------------
    ("planar.x", "rhophi", ["rho", "phi"], ("rho * cos(phi)",), [], "VectorProtocolPlanar.x: x = rho cos(phi)"),
    ("planar.y", "rhophi", ["rho", "phi"], ("rho * sin(phi)",), [], "VectorProtocolPlanar.y: y = rho sin(phi)"),
    ("planar.rho", "xy", ["x", "y"], ("sqrt(x**2 + y**2)",), [], "VectorProtocolPlanar.rho: magnitude in the plane"),
    ("planar.rho2", "xy", ["x", "y"], ("x**2 + y**2",), [], "VectorProtocolPlanar.rho2"),
    ("planar.rho2", "rhophi", ["rho", "phi"], ("rho**2",), [], "VectorProtocolPlanar.rho2"),
    ("planar.phi", "xy", ["x", "y"], ("arctan2(y, x)",), [], "VectorProtocolPlanar.phi: azimuthal angle from the x axis, in (-pi, pi]"),
    # ---- spatial accessors --------------------------------------------------------------------------
    ("spatial.z", "xy_theta", ["x", "y", "theta"], ("sqrt(x**2 + y**2) / tan(theta)",), ["nan_to_num_id"], "z = rho / tan(theta)"),
    ("spatial.z", "xy_eta", ["x", "y", "eta"], ("sqrt(x**2 + y**2) * sinh(eta)",), [], "z = rho sinh(eta)"),
    ("spatial.z", "rhophi_theta", ["rho", "phi", "theta"], ("rho / tan(theta)",), ["nan_to_num_id"], "z = rho / tan(theta)"),
    ("spatial.z", "rhophi_eta", ["rho", "phi", "eta"], ("rho * sinh(eta)",), [], "z = rho sinh(eta)"),
    ("spatial.theta", "xy_z", ["x", "y", "z"], ("arccos(z / sqrt(x**2 + y**2 + z**2))",), ["nan_to_num_id"], "theta = polar angle from the z axis = arccos(z/mag)"),
    ("spatial.theta", "rhophi_z", ["rho", "phi", "z"], ("arccos(z / sqrt(rho**2 + z**2))",), ["nan_to_num_id"], "theta = arccos(z/mag)"),
    ("spatial.theta", "xy_eta", ["x", "y", "eta"], ("2 * arctan(exp(-eta))",), [], "eta = -ln tan(theta/2)  <=>  theta = 2 arctan(exp(-eta))"),
    ("spatial.eta", "xy_z", ["x", "y", "z"], ("arcsinh(z / sqrt(x**2 + y**2))",), ["nan_to_num_id"], "pseudorapidity: sinh(eta) = z / rho"),
    ("spatial.eta", "rhophi_z", ["rho", "phi", "z"], ("arcsinh(z / rho)",), ["nan_to_num_id"], "sinh(eta) = z / rho"),
    ("spatial.eta", "xy_theta", ["x", "y", "theta"], ("-log(tan(theta / 2))",), ["nan_to_num_id"], "eta = -ln tan(theta/2)"),
    ("spatial.eta", "rhophi_theta", ["rho", "phi", "theta"], ("-log(tan(theta / 2))",), ["nan_to_num_id"], "eta = -ln tan(theta/2)"),
    ("spatial.mag2", "xy_z", ["x", "y", "z"], ("x**2 + y**2 + z**2",), [], "mag2 = x^2 + y^2 + z^2"),
    ("spatial.mag2", "rhophi_z", ["rho", "phi", "z"], ("rho**2 + z**2",), [], "mag2 = rho^2 + z^2"),
    ("spatial.mag2", "xy_theta", ["x", "y", "theta"], ("(x**2 + y**2) / sin(theta)**2",), [], "mag = rho / sin(theta)"),
    ("spatial.mag2", "rhophi_theta", ["rho", "phi", "theta"], ("rho**2 / sin(theta)**2",), [], "mag = rho / sin(theta)"),
    ("spatial.mag2", "xy_eta", ["x", "y", "eta"], ("(x**2 + y**2) * ((exp(eta) + exp(-eta)) / 2)**2",), ["exp_neg"], "mag = rho cosh(eta)"),
    ("spatial.mag2", "rhophi_eta", ["rho", "phi", "eta"], ("rho**2 * ((exp(eta) + exp(-eta)) / 2)**2",), ["exp_neg"], "mag = rho cosh(eta)"),
    ("spatial.mag", "xy_z", ["x", "y", "z"], ("sqrt(x**2 + y**2 + z**2)",), [], "mag = sqrt(mag2)"),
    ("spatial.mag", "rhophi_z", ["rho", "phi", "z"], ("sqrt(rho**2 + z**2)",), [], "mag = sqrt(mag2)"),
    ("spatial.mag", "xy_theta", ["x", "y", "theta"], ("sqrt(x**2 + y**2) / abs(sin(theta))",), [], "mag = rho / sin(theta), theta in [0, pi]"),
    ("spatial.mag", "rhophi_theta", ["rho", "phi", "theta"], ("rho / abs(sin(theta))",), [], "mag = rho / sin(theta)"),
    ("spatial.mag", "xy_eta", ["x", "y", "eta"], ("sqrt(x**2 + y**2) * (exp(eta) + exp(-eta)) / 2",), ["exp_neg"], "mag = rho cosh(eta)"),
    ("spatial.mag", "rhophi_eta", ["rho", "phi", "eta"], ("rho * (exp(eta) + exp(-eta)) / 2",), ["exp_neg"], "mag = rho cosh(eta)"),
    ("spatial.costheta", "xy_z", ["x", "y", "z"], ("z / sqrt(x**2 + y**2 + z**2)",), ["nan_to_num_id"], "costheta = z / mag"),
    ("spatial.costheta", "xy_theta", ["x", "y", "theta"], ("cos(theta)",), [], "costheta = cos(theta)"),
    ("spatial.cottheta", "xy_z", ["x", "y", "z"], ("z / sqrt(x**2 + y**2)",), ["nan_to_num_id"], "cottheta = z / rho"),
    ("spatial.cottheta", "xy_theta", ["x", "y", "theta"], ("1 / tan(theta)",), [], "cottheta = 1 / tan(theta)"),
    # ---- lorentz accessors (docstring code blocks are additionally parsed at run time, see c02.py) ----
    ("lorentz.t2", "xy_z_tau", ["x", "y", "z", "tau"], ("maximum(copysign(tau**2, tau) + x**2 + y**2 + z**2, 0)",), [], "t2 docstring: max(copysign(tau**2, tau) + mag**2, 0)"),
    ("lorentz.t", "xy_z_tau", ["x", "y", "z", "tau"], ("sqrt(maximum(copysign(tau**2, tau) + x**2 + y**2 + z**2, 0))",), [], "t docstring"),
    ("lorentz.tau2", "xy_z_t", ["x", "y", "z", "t"], ("t**2 - (x**2 + y**2 + z**2)",), [], "tau2 docstring: t**2 - mag**2; (-,-,-,+) metric (docs/index.md)"),
    ("lorentz.tau2", "xy_z_tau", ["x", "y", "z", "tau"], ("copysign(tau**2, tau)",), [], "negative tau encodes spacelike: tau2 = sign(tau) tau^2"),
    ("lorentz.tau", "xy_z_t", ["x", "y", "z", "t"], ("copysign(sqrt(abs(t**2 - (x**2 + y**2 + z**2))), t**2 - (x**2 + y**2 + z**2))",), [], "tau docstring"),
    ("lorentz.beta", "xy_z_t", ["x", "y", "z", "t"], ("sqrt(x**2 + y**2 + z**2) / t",), ["nan_to_num_id"], "beta = mag / t"),
    ("lorentz.gamma", "xy_z_tau", ["x", "y", "z", "tau"], ("sqrt(maximum(copysign(tau**2, tau) + x**2 + y**2 + z**2, 0)) / tau",), ["nan_to_num_id"], "gamma = t / tau"),
    ("lorentz.rapidity", "xy_z_t", ["x", "y", "z", "t"], ("0.5 * log((t + z) / (t - z))",), [], "rapidity docstring"),
    ("lorentz.Et2", "xy_z_t", ["x", "y", "z", "t"], ("t**2 * (x**2 + y**2) / (x**2 + y**2 + z**2)",), [], "Et = E sin(theta): Et2 = t^2 rho^2 / mag^2"),
    ("lorentz.Et", "xy_theta_t", ["x", "y", "theta", "t"], ("t * sin(theta)",), [], "transverse energy Et = E sin(theta)"),
    ("lorentz.Mt2", "xy_z_t", ["x", "y", "z", "t"], ("t**2 - z**2",), [], "transverse mass squared Mt2 = E^2 - pz^2"),
    ("lorentz.to_beta3", "xy_z_t", ["x", "y", "z", "t"], ("x / t", "y / t", "z / t"), [], "to_beta3: velocity p / E"),
    # ---- products, sums, scaling ----------------------------------------------------------------------
    ("planar.dot", "xy_xy", ["x1", "y1", "x2", "y2"], ("x1*x2 + y1*y2",), [], "Euclidean dot product"),
    ("planar.dot", "rhophi_rhophi", ["rho1", "phi1", "rho2", "phi2"], ("rho1*cos(phi1)*rho2*cos(phi2) + rho1*sin(phi1)*rho2*sin(phi2)",), ["angle_addition"], "dot of the Cartesian components"),
    ("spatial.dot", "xy_z_xy_z", ["x1", "y1", "z1", "x2", "y2", "z2"], ("x1*x2 + y1*y2 + z1*z2",), [], "Euclidean dot product"),
    ("spatial.dot", "rhophi_z_rhophi_z", ["rho1", "phi1", "z1", "rho2", "phi2", "z2"], ("rho1*cos(phi1)*rho2*cos(phi2) + rho1*sin(phi1)*rho2*sin(phi2) + z1*z2",), ["angle_addition"], "dot of the Cartesian components"),
    ("lorentz.dot", "xy_z_t_xy_z_t", ["x1", "y1", "z1", "t1", "x2", "y2", "z2", "t2"], ("t1*t2 - x1*x2 - y1*y2 - z1*z2",), [], "(-,-,-,+) Minkowski metric (docs/index.md)"),
    ("planar.add", "xy_xy", ["x1", "y1", "x2", "y2"], ("x1 + x2", "y1 + y2"), [], "component-wise sum"),
    ("planar.subtract", "xy_xy", ["x1", "y1", "x2", "y2"], ("x1 - x2", "y1 - y2"), [], "component-wise difference"),
    ("spatial.add", "xy_z_xy_z", ["x1", "y1", "z1", "x2", "y2", "z2"], ("x1 + x2", "y1 + y2", "z1 + z2"), [], "component-wise sum"),
    ("spatial.subtract", "xy_z_xy_z", ["x1", "y1", "z1", "x2", "y2", "z2"], ("x1 - x2", "y1 - y2", "z1 - z2"), [], "component-wise difference"),
    ("lorentz.add", "xy_z_t_xy_z_t", ["x1", "y1", "z1", "t1", "x2", "y2", "z2", "t2"], ("x1 + x2", "y1 + y2", "z1 + z2", "t1 + t2"), [], "component-wise sum"),
    ("lorentz.subtract", "xy_z_t_xy_z_t", ["x1", "y1", "z1", "t1", "x2", "y2", "z2", "t2"], ("x1 - x2", "y1 - y2", "z1 - z2", "t1 - t2"), [], "component-wise difference"),
    ("planar.scale", "xy", ["f", "x", "y"], ("f*x", "f*y"), [], "scalar multiple"),
    ("spatial.scale", "xy_z", ["f", "x", "y", "z"], ("f*x", "f*y", "f*z"), [], "scalar multiple"),
    ("lorentz.scale", "xy_z_t", ["f", "x", "y", "z", "t"], ("f*x", "f*y", "f*z", "f*t"), [], "scalar multiple"),
    ("spatial.cross", "xy_z_xy_z", ["x1", "y1", "z1", "x2", "y2", "z2"], ("y1*z2 - z1*y2", "z1*x2 - x1*z2", "x1*y2 - y1*x2"), [], "right-handed cross product"),
    ("planar.unit", "xy", ["x", "y"], ("x / sqrt(x**2 + y**2)", "y / sqrt(x**2 + y**2)"), ["nan_to_num_id"], "unit vector v / |v|"),
    ("spatial.unit", "xy_z", ["x", "y", "z"], ("x / sqrt(x**2 + y**2 + z**2)", "y / sqrt(x**2 + y**2 + z**2)", "z / sqrt(x**2 + y**2 + z**2)"), ["nan_to_num_id"], "unit vector v / |v|"),
    # ---- rotations and linear transforms (active, right-handed: docs/index.md) ---------------------------
    ("planar.rotateZ", "xy", ["a", "x", "y"], ("cos(a)*x - sin(a)*y", "sin(a)*x + cos(a)*y"), [], "active right-handed rotation about z"),
    ("spatial.rotateX", "xy_z", ["a", "x", "y", "z"], ("x", "cos(a)*y - sin(a)*z", "sin(a)*y + cos(a)*z"), [], "active right-handed rotation about x"),
    ("spatial.rotateY", "xy_z", ["a", "x", "y", "z"], ("cos(a)*x + sin(a)*z", "y", "-sin(a)*x + cos(a)*z"), [], "active right-handed rotation about y"),
    ("planar.transform2D", "xy", ["xx", "xy_", "yx", "yy", "x", "y"], ("xx*x + xy_*y", "yx*x + yy*y"), [], "matrix times column vector (transform2D docstring)"),
    ("spatial.transform3D", "xy_z", ["xx", "xy_", "xz", "yx", "yy", "yz", "zx", "zy", "zz", "x", "y", "z"],
     ("xx*x + xy_*y + xz*z", "yx*x + yy*y + yz*z", "zx*x + zy*y + zz*z"), [], "matrix times column vector"),
    ("lorentz.transform4D", "xy_z_t", ["xx", "xy_", "xz", "xt", "yx", "yy", "yz", "yt", "zx", "zy", "zz", "zt", "tx", "ty", "tz", "tt", "x", "y", "z", "t"],
     ("xx*x + xy_*y + xz*z + xt*t", "yx*x + yy*y + yz*z + yt*t", "zx*x + zy*y + zz*z + zt*t", "tx*x + ty*y + tz*z + tt*t"), [], "matrix times column vector"),
    # ---- differences -------------------------------------------------------------------------------------------
    ("planar.deltaphi", "rhophi_rhophi", ["rho1", "phi1", "rho2", "phi2"], ("wrap(phi1 - phi2)",), [], "deltaphi = phi1 - phi2 wrapped into [-pi, pi]"),
    ("planar.deltaphi", "xy_xy", ["x1", "y1", "x2", "y2"], ("wrap(arctan2(y1, x1) - arctan2(y2, x2))",), [], "deltaphi of the azimuthal angles"),
    ("spatial.deltaeta", "xy_eta_xy_eta", ["x1", "y1", "eta1", "x2", "y2", "eta2"], ("eta1 - eta2",), [], "deltaeta = eta1 - eta2"),
    ("spatial.deltaR2", "rhophi_eta_rhophi_eta", ["rho1", "phi1", "eta1", "rho2", "phi2", "eta2"], ("wrap(phi1 - phi2)**2 + (eta1 - eta2)**2",), [], "deltaR2 = deltaphi^2 + deltaeta^2"),
    ("spatial.deltaR", "rhophi_eta_rhophi_eta", ["rho1", "phi1", "eta1", "rho2", "phi2", "eta2"], ("sqrt(wrap(phi1 - phi2)**2 + (eta1 - eta2)**2)",), [], "deltaR = sqrt(deltaphi^2 + deltaeta^2)"),
    ("spatial.deltaangle", "xy_z_xy_z", ["x1", "y1", "z1", "x2", "y2", "z2"],
     ("arccos(maximum(-1, minimum(1, (x1*x2 + y1*y2 + z1*z2) / sqrt(x1**2 + y1**2 + z1**2) / sqrt(x2**2 + y2**2 + z2**2))))",), [], "angle between the vectors, arccos of the clamped cosine"),
    # ---- axis boosts (active: docs/index.md) ---------------------------------------------------------------------
    ("lorentz.boostX_beta", "xy_z_t", ["b", "x", "y", "z", "t"], ("(x + b*t) / sqrt(1 - b**2)", "y", "z", "(t + b*x) / sqrt(1 - b**2)"), [], "x' = gamma (x + beta t), t' = gamma (t + beta x)"),
    ("lorentz.boostY_beta", "xy_z_t", ["b", "x", "y", "z", "t"], ("x", "(y + b*t) / sqrt(1 - b**2)", "z", "(t + b*y) / sqrt(1 - b**2)"), [], "active boost along y"),
    ("lorentz.boostZ_beta", "xy_z_t", ["b", "x", "y", "z", "t"], ("x", "y", "(z + b*t) / sqrt(1 - b**2)", "(t + b*z) / sqrt(1 - b**2)"), [], "active boost along z"),
]
