#!/usr/bin/env python3
"""Run the pinned pytest suite on a repo tree and compare with /root/.vp/BASELINE.json stable_pass.

usage: baseline_check.py [repo_dir] [-n JOBS]
exit 0 iff every stable_pass test passed.
"""
import json, subprocess, sys, tempfile, os, xml.etree.ElementTree as ET
repo = sys.argv[1] if len(sys.argv) > 1 and not sys.argv[1].startswith('-') else '/repo'
jobs = '8'
if '-n' in sys.argv:
    jobs = sys.argv[sys.argv.index('-n') + 1]
base = json.load(open('/root/.vp/BASELINE.json'))
want = set(base['stable_pass'])
with tempfile.TemporaryDirectory() as td:
    xml = os.path.join(td, 'r.xml')
    env = dict(os.environ)
    env.pop('SCIKIT_HEP_VECTOR_VERIF', None)
    cmd = ['/venv/bin/python', '-m', 'pytest', '-ra', '-q', '-p', 'no:cacheprovider', '--timeout=900',
           '--continue-on-collection-errors', f'--junitxml={xml}']
    if jobs != '0':
        cmd += ['-n', jobs]
    env['PYTHONPATH'] = os.path.join(repo, 'src')
    r = subprocess.run(cmd, cwd=repo, env=env, capture_output=True, text=True)
    tree = ET.parse(xml)
    passed = set()
    for tc in tree.iter('testcase'):
        if not any(ch.tag in ('failure', 'error', 'skipped') for ch in tc):
            passed.add(f"{tc.get('classname')}::{tc.get('name')}")
missing = sorted(want - passed)
print(f"stable_pass={len(want)} passed_now={len(passed)} missing={len(missing)}")
for m in missing[:40]:
    print("  MISSING", m)
print(r.stdout.strip().splitlines()[-1] if r.stdout.strip() else '')
sys.exit(1 if missing else 0)
