#!/bin/bash
# usage: dev_eval.sh <patch.diff> [tree]   -- apply a patch to a scratch worktree (default /tmp/repo_head), run all quick checks against it, revert
P=$1; T=${2:-/tmp/repo_head}
git -C $T apply $P || { echo "PATCH DOES NOT APPLY"; exit 2; }
O=$(mktemp -d /tmp/deveval.XXXXXX)
for n in 01 02 03 04 05 06 07 08 09 10 11 12 13 14 15 16 17 18 19 20; do
  ( cd /verif; VERIF_JOBS=${VERIF_JOBS:-3} VERIF_NO_SHARED=${VERIF_NO_SHARED:-} VERIF_REPO=$T VERIF_NO_EVIDENCE=1 VERIF_OUT=$O/o$n /venv/bin/python -m verifstat check C$n > $O/C$n.log 2>&1; rc=$?
    if [ $rc -ne 0 ]; then echo "C$n exit=$rc rules: $(grep '^  C' $O/C$n.log | sed 's/^  \(C[0-9][0-9]\.[a-z0-9-]*\).*/\1/' | sort | uniq -c | tr '\n' ';') $(grep ANALYSIS-ERROR $O/C$n.log | head -1 | cut -c1-200)"; fi ) &
done; wait
git -C $T checkout -- .
rm -rf $O
