#!/usr/bin/env python3
"""Development tool (not a check): list the templates of every compute module on the current tree and
write tables/bases.json = module -> {representative signature: reason}.  Run once on the pinned tree after
reading each base; the committed table is then the reference for every later run."""
import sys, json, collections, os
sys.path.insert(0, '/verif')
from verifstat import loader, lift
L = loader.link()
LF = lift.Lifting(L)
ACCESSOR = {"x","y","rho","phi","rho2","z","theta","eta","costheta","cottheta","mag","mag2","t","t2","tau","tau2","Et","Et2","Mt","Mt2","beta","gamma","rapidity"}
COMPARE = {"equal","not_equal","isclose"}
REASON = {
 "accessor": "coordinate/quantity definition written natively in this storage system; agreement with the documented definition is decided under C02, agreement with the other natives needs transcendental identities (declined)",
 "compare": "comparison policy: operands are compared in their common system (policy comment at the top of the module); this signature compares natively, without conversion",
 "native": "native formula that keeps the operand's stored coordinate system (marked '# specialized' / per-system by design: scale, unit, to_beta3, polar add/subtract/dot, rotateZ.rhophi, boostZ in rho-phi)",
 "tau": "tau-stored boosted vector: returns the stored tau unchanged and recomputes only the spatial part (relation to the t-stored kernel decided under C09.tau-stored)",
 "euler": "one of the 12 Euler axis orders: a different operation per order (each decided against the axis-rotation composition under C10)",
 "cartesian": "Cartesian kernel: the defining formula of the operation (decided under C02/C09/C10/C11)",
}
out = {}
for mn in L.mods:
    short = L.short(mn); name = short.split('.')[-1]
    groups = collections.OrderedDict()
    for e in LF.shapes[mn].entries:
        t, _ = LF.template(e)
        groups.setdefault(t, []).append(e.signame)
    ent = {}
    for i, (t, sigs) in enumerate(groups.items()):
        rep = sigs[0]
        if name == "rotate_euler": cat = "euler"
        elif name in ACCESSOR: cat = "accessor" if not (i == 0 and len(groups) == 1) else "cartesian"
        elif name in COMPARE: cat = "compare"
        elif name.startswith("boost") and "tau" in rep.split("_")[:3] and i > 0: cat = "tau"
        elif i == 0: cat = "cartesian"
        else: cat = "native"
        ent[rep] = {"reason": REASON[cat], "members_at_freeze": len(sigs)}
    out[short] = ent
json.dump(out, open('/verif/tables/bases.json', 'w'), indent=1)
print(sum(len(v) for v in out.values()), "bases in", len(out), "modules")
