#!/usr/bin/env python3
"""Development tool: write tables/dispatch.json from the current tree (reviewed by hand afterwards)."""
import sys, json, re
sys.path.insert(0, '/verif')
from verifstat import loader, dispatchers
L = loader.link()
out = {}
for mn, m in L.mods.items():
    d = dispatchers.dispatch_summary(m)
    vec = [v for v, _ in d.operands()]
    counted = re.findall(r"\w+", d.flavor_expr)[1:]
    out[L.short(mn)] = {
        "num_vecargs": d.num_vecargs,
        "counted_operands": [vec.index(c) for c in counted],
        "handler_style": "self" if d.handler_expr in vec else "handler_of",
        "lib_style": "self" if d.lib_expr.endswith(".lib") else "lib_of",
    }
json.dump(out, open('/verif/tables/dispatch.json', 'w'), indent=1)
import collections
print(collections.Counter((v["num_vecargs"], tuple(v["counted_operands"]), v["handler_style"], v["lib_style"]) for v in out.values()))
