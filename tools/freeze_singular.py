#!/usr/bin/env python3
"""(re)generate tables/singular.json from the tree at VERIF_REPO (default /repo).  Run once on the pinned tree; review the diff."""
import json
import sys
from pathlib import Path

sys.path.insert(0, str(Path(__file__).resolve().parent.parent))
from verifstat import singular  # noqa: E402
from verifstat.core import VERIF, repo_root  # noqa: E402
from verifstat.loader import link  # noqa: E402

L = link(repo_root())
t = singular.evaluate(L)
(VERIF / "tables" / "singular.json").write_text(json.dumps(t, indent=0, sort_keys=True))
n = sum(len(r) for r in t.values())
print(f"{len(t)} entries, {n} points")

t2 = singular.evaluate_special(L)
(VERIF / "tables" / "special_args.json").write_text(json.dumps(t2, indent=0, sort_keys=True))
print(f"special arguments: {len(t2)} entries, {sum(len(r) for r in t2.values())} argument tuples")
