#!/usr/bin/env python3
"""Regenerate /verif/MANIFEST.json from tools/manifest_table.py (kept valid against the schema)."""
import json, sys, os
sys.path.insert(0, os.path.dirname(__file__))
from manifest_table import CHECKS, NOT_APPLICABLE, NOTES, HOOK_COMMITS
PY = "/venv/bin/python"
man = {
    "version": 1,
    "setup_cmd": f"cd /verif && {PY} -c \"import ast, inspect, fractions, json; import verifstat.core, verifstat.loader, verifstat.ir, verifstat.nf; print('verifstat ok')\"",
    "hooks": {
        "guard": "SCIKIT_HEP_VECTOR_VERIF",
        "enable": "none needed: the checks are static analyses of /repo's working tree; no instrumentation is compiled into scikit-hep/vector",
        "baseline_off_cmd": "cd /repo && /venv/bin/python -m pytest -ra -q -p no:cacheprovider --timeout=900 --continue-on-collection-errors",
        "source_commits": HOOK_COMMITS,
        "add_only": True,
    },
    "engines": [
        {"name": "verifstat", "path": "/verif/verifstat", "serves_properties": [c["id"] for c in CHECKS],
         "kind_free_text": "static analysis: ast/inspect link step, inlined expression DAGs of the straight-line compute layer, ring normal form (algebraic value numbering), template lifting, truth tables, sign/interval abstract interpretation, structural AST/CFG rules"},
    ],
    "checks": [],
    "notes": NOTES,
    "not_applicable": NOT_APPLICABLE,
}
# rules of other checks applied to a property as necessary conditions of it (verifstat/shared.py)
import ast as _ast
_src = open(os.path.join(os.path.dirname(os.path.dirname(os.path.abspath(__file__))), "verifstat", "shared.py")).read()
_shared = {}
for _node in _ast.walk(_ast.parse(_src)):
    if isinstance(_node, _ast.Assign) and any(isinstance(t, _ast.Name) and t.id == "SHARED" for t in _node.targets):
        for _k, _v in zip(_node.value.keys, _node.value.values):
            _rows = []
            for _row in _v.elts:
                _mp = _row.elts[1]
                _rows += [f"{_o.value} as {_n.value}" for _o, _n in zip(_mp.keys, _mp.values)]
            _shared[_k.value] = _rows
for c in CHECKS:
    if _shared.get(c["id"]):
        c = dict(c, note=c["note"] + " Rules of neighbouring checks applied here as necessary conditions of this property (DESIGN.md section 8): " + "; ".join(_shared[c["id"]]) + ".")
    man["checks"].append({
        "property_id": c["id"],
        "quick_cmd": f"cd /verif && {PY} -m verifstat check {c['id']} --tier quick",
        "thorough_cmd": f"cd /verif && {PY} -m verifstat check {c['id']} --tier thorough",
        "evidence_file": f"/verif/evidence/{c['id']}.json",
        "replay_cmd_template": f"cd /verif && {PY} -m verifstat replay {{path}}",
        "engine": "verifstat",
        "level_claimed": {"category": c["level"], "text": c["text"], "design_ref": c["design_ref"]},
        "level_note": c["note"],
        "technique": c["technique"],
    })
out = os.path.join(os.path.dirname(os.path.dirname(os.path.abspath(__file__))), "MANIFEST.json")
man["checks"].sort(key=lambda c: c["property_id"]); json.dump(man, open(out, "w"), indent=1)
print("wrote", out, len(man["checks"]), "checks,", len(NOT_APPLICABLE), "not_applicable")
try:
    import jsonschema
    jsonschema.validate(man, json.load(open("/root/.vp/MANIFEST.schema.json")))
    print("schema ok")
except ImportError:
    print("(jsonschema not importable here; validate with python3-vt)")
