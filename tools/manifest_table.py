HOOK_COMMITS = []
NOTES = ("Static analysis only: no check calls a compute function, method, operator or constructor of vector. "
         "Exit 0 held / 1 VIOLATION / 2 ANALYSIS-ERROR. Known findings: /verif/known_findings.json. "
         "Self-test corpora (mutants that must be caught, behaviour-preserving edits that must stay silent): "
         "`/venv/bin/python -m verifstat selftest`.")
TB = ("Trusted: python ast/inspect; the link step (importing vector._compute.* runs only table-building top-level "
      "code, never a compute function); the verifstat engines (DESIGN.md section 2). ")

CHECKS = [
 {"id": "C01", "level": "proof",
  "text": "Every one of the 2404 dispatch-table entries (hand-written and generated) is lifted to a coordinate-independent template (accessor and operation symbols validated by ring value number) and must equal the template of a frozen, individually-justified base of its module: derived variants provably denote the same function of their operands whatever the storage system, with consistent declared result classes. The 82 dispatchers are checked to look up and feed variants in the same operand/group order. Proof level on the derived variants because straight-line code has an exact expression semantics and the normal form is canonical in its fragment.",
  "design_ref": "DESIGN.md section 3, C01", "note": TB + "tables/bases.json (225 frozen bases with reasons) and tables/dispatch.json are part of the trusted base; agreement between two native bases of one module is NOT decided here (see C02/C09/C11 for the parts that are). Real arithmetic; rounding out of scope.",
  "technique": "template lifting + algebraic value numbering (ring normal form) over all table entries; AST rules on dispatch()"},
 {"id": "C03", "level": "other",
  "text": "Backends share one compute layer, so value agreement reduces to structural clauses decided exhaustively: no backend calls a kernel except through dispatch and every numeric lib is NumPy; the coordinate order of all 7 coordinate classes agrees across tables, constructors and `elements` in four backends; and all ten _wrap_result implementations are abstractly interpreted on every `returns` shape x stored system x num_vecargs x flavor (7200 + 26640 cases) and must equal the specification derived from the shape, so no branch copies a wrong column, mislabels a field, forgets a pass-through or keeps a stale field.",
  "design_ref": "DESIGN.md section 3, C03", "note": TB + "The abstract interpreter (verifstat.peval) models ak.zip/ak.fields/numpy.empty as opaque externals; NumPy/Awkward broadcasting and ak.transform semantics are not decided.",
  "technique": "abstract interpretation (partial evaluation) of backend ASTs over key sets, class references and opaque values; who-may-call lint"},
 {"id": "C06", "level": "other",
  "text": "Exhaustive over every subset of up to 5 (thorough: 6) of the 19 recognised names: obj, the six object classes, _check_names (zip/Array) and array + __array_finalize__ are interpreted abstractly (AST, opaque value tokens) and compared with a specification computed from the documented grammar: acceptance, class/dimension/flavor, and each value token in the slot of its own coordinate; bool/non-numeric values rejected; the constructors agree with each other.",
  "design_ref": "DESIGN.md section 3, C06", "note": TB + "NumPy's own dtype machinery is assumed to reject duplicate field names; Awkward type checks are not modelled.",
  "technique": "key-set abstract interpretation of constructor ASTs, exhaustive enumeration of name sets"},
 {"id": "C14", "level": "other",
  "text": "Exhaustive over the synonym table x backend: momentum properties resolve through each class's MRO to the same compute module as the geometric name (220 reads over 15 momentum classes); synonym setters equal generic setters; NumPy _getitem/_setitem translate iff momentum with every name defined on both flavors; __array_finalize__ renames through the table; Awkward field cascades choose consistent columns for every subset of spellings.",
  "design_ref": "DESIGN.md section 3, C14", "note": TB + "MRO is computed from the class statements (C3 linearisation); run-time attribute lookup of ndarray/ak.Array subclasses is assumed to follow it.",
  "technique": "abstract interpretation of property/setter/item-access ASTs; table comparison"},
 {"id": "C15", "level": "other",
  "text": "Per-step rules, exhaustive over the 74 setters and all 40 _replace_data class combinations: each setter performs exactly one store of the right coordinate class with the value in its own field and the partner read through its accessor; _replace_data rebuilds each group in the target's own class from the result and returns the target, raising before any store on a non-vector; in-place operators are _replace_data of the functional ufunc. All histories follow by induction because a step depends only on the three slots.",
  "design_ref": "DESIGN.md section 3, C15", "note": TB + "Exact float read-back after switching the stored system is not decided.",
  "technique": "abstract interpretation of setter and _replace_data ASTs; AST pattern rules for operators"},
 {"id": "C09", "level": "proof",
  "text": "Ring-normal-form proofs on the Cartesian boost kernels: Minkowski product preserved, inverses, axis boosts equal boost_beta3 along the axis, gamma spelling equals beta spelling (sign gives direction), velocity-addition ratio of composed axis boosts, tau-stored variants keep tau and reuse the t-kernel rows, boost_p4(p) = boost_beta3(p/E), CM-frame identity; plus the dispatch structure of boost()/boostCM_of*() in the method layer.",
  "design_ref": "DESIGN.md section 3, C09", "note": TB + "Identities hold over the reals wherever denominators do not vanish and sqrt arguments are non-negative (sqrt(e)^2 -> e); E > 0 is declared for the boost_p4/boost_beta3 equivalence. Float rounding / exact cancellation not decided. Other coordinate signatures are transported by C01.",
  "technique": "inlined expression DAGs + polynomial/rational normal form with sqrt/copysign/abs rewrite rules"},
 {"id": "C10", "level": "proof",
  "text": "Ring-normal-form proofs on the rotation kernels: dot products and handedness preserved for rotateX/Y/Z, rotate_axis, rotate_quaternion (scaled by |q|^2) and all 12 Euler matrices; inverse and additivity about a fixed axis; rotate_axis about coordinate axes equals rotateX/Y/Z and ignores positive axis scale; quaternion form equals axis-angle form; every Euler matrix equals the composition of the repository's own axis rotations; rotate_nautical/rotate_euler forwarding and the 12-order table.",
  "design_ref": "DESIGN.md section 3, C10", "note": TB + "Euler convention R_o0(-psi) R_o1(-theta) R_o2(-phi) was identified on the pinned tree as the one convention all 12 matrices satisfy (sibling agreement). Real arithmetic; large-angle float behaviour not decided.",
  "technique": "inlined expression DAGs + trig polynomial normal form (sin^2 -> 1-cos^2, angle addition)"},
 {"id": "C11", "level": "proof",
  "text": "Ring-normal-form proofs on the Cartesian add/subtract/scale/dot/cross/unit kernels in 2D/3D/4D (commutativity, associativity, distributivity, bilinearity, metric signature, dot(v,v) = norm^2, cross-product laws incl. Lagrange identity, unit-vector laws) and on the polar natives' radial parts; structural check that negation is scale(-1) and that abs/square/sqrt/cbrt/power overloads reduce to rho|mag|tau by dimension in all four backends.",
  "design_ref": "DESIGN.md section 3, C11", "note": TB + "unit-vector laws use nan_to_num(e) = e (finite operands). Azimuth of polar add/subtract not decided.",
  "technique": "inlined expression DAGs + ring normal form; AST extraction of the ufunc/behavior tables"},
 {"id": "C12", "level": "proof",
  "text": "Exhaustive truth-table proof over all 184 signature pairs that not_equal is the negation of equal, that same-system equal/isclose are conjunctions over the stored coordinates with tolerances passed through, that isclose compares the same converted pairs as equal, symmetry and reflexivity; plus forwarding of the three methods. Proof level because the compute layer is straight-line code whose inlined DAG is its exact semantics and the boolean abstraction is finite.",
  "design_ref": "DESIGN.md section 3, C12", "note": TB + "Comparison atoms are treated as independent booleans; a>=b is NOT(a<b) (no NaN, as the property states). lib.isclose semantics not modelled.",
  "technique": "AST inlining to expression DAG + boolean abstraction + exhaustive truth tables"},
 {"id": "C13", "level": "proof",
  "text": "Interval abstract interpretation of every phi/deltaphi/theta/deltaangle/rho/rho2/mag/mag2/t/t2 entry under the documented storage preconditions proves the documented ranges and the definedness of the outermost sqrt/arccos; structural sign rules for tau and costheta/cottheta; the six classification predicates are reduced to linear forms in the cosine (resp. tau^2) and |tolerance| and their solution sets compared with the documented ones, including pairwise disjointness of the causal classes for every tolerance.",
  "design_ref": "DESIGN.md section 3, C13", "note": TB + "Interval transfer functions are the standard real ones; open/closed endpoints are not distinguished. beta/gamma ranges and theta's unclamped arccos argument need relational facts and are not decided.",
  "technique": "interval abstract interpretation + linear predicate-shape extraction on lifted templates"},
]
_PENDING = "check not built yet in this revision of /verif (see DESIGN.md section 3 for the planned static rules); not claimed until it runs clean"
NOT_APPLICABLE = [{"property_id": f"C{n:02d}", "reason": _PENDING} for n in range(1, 21) if f"C{n:02d}" not in {c["id"] for c in CHECKS}]
