HOOK_COMMITS = []
NOTES = ("Static analysis only: no check calls a compute function, method, operator or constructor of vector. "
         "Exit 0 held / 1 VIOLATION / 2 ANALYSIS-ERROR. Known findings: /verif/known_findings.json.")
TB = "Trusted: python ast/inspect; the link step (import of vector._compute.* runs only table-building top-level code); verifstat engines (DESIGN.md section 2)."
CHECKS = [
 {"id": "C12", "level": "proof",
  "text": "Exhaustive truth-table proof over all 184 signature pairs that not_equal is the negation of equal, that same-system equal/isclose are conjunctions over the stored coordinates with tolerances passed through, that isclose compares the same converted pairs as equal, symmetry and reflexivity; plus forwarding of the three methods. Proof level because the compute layer is straight-line code whose inlined DAG is its exact semantics and the boolean abstraction is finite.",
  "design_ref": "DESIGN.md section 3, C12", "note": TB + " Comparison atoms are treated as independent booleans; a>=b is NOT(a<b) (no NaN, as the property states). lib.isclose semantics not modelled.",
  "technique": "AST inlining to expression DAG + boolean abstraction + exhaustive truth tables"},
]
_PENDING = "check not built yet in this revision of /verif (see DESIGN.md section 3 for the planned static rules); not claimed until it runs clean"
NOT_APPLICABLE = [{"property_id": f"C{n:02d}", "reason": _PENDING} for n in range(1, 21) if f"C{n:02d}" not in {c["id"] for c in CHECKS}]
