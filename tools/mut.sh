#!/bin/bash
# usage: mut.sh <prop> <file-under-src/vector> <sed-expr>   -- run a check against a scratch copy with one edit
set -e
D=$(mktemp -d /tmp/mut.XXXXXX)
mkdir -p $D/src && cp -r /repo/src/vector $D/src/vector
sed -i "$3" $D/src/vector/$2
if diff -rq /repo/src/vector $D/src/vector >/dev/null; then echo "MUTATION DID NOT CHANGE ANYTHING"; fi
diff -r /repo/src/vector $D/src/vector | grep '^[<>]' | head -6
cd /verif && VERIF_REPO=$D VERIF_NO_EVIDENCE=1 VERIF_OUT=$D/out /venv/bin/python -m verifstat check $1 2>&1 | grep -v "^WARNING\|witness" | tail -${4:-6}
rm -rf $D
