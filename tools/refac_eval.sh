#!/bin/bash
# usage: refac_eval.sh <scratch worktree of /repo> [name ...]
# apply each behaviour-preserving refactoring under /verif/refactorings to the scratch worktree, run every quick check against it
# (tools/dev_eval.sh) and print whatever is reported: ANY line printed for a refactoring is a false alarm of the machinery.
T=$1; shift
names=${@:-$(ls /verif/refactorings)}
for n in $names; do
  out=$(/verif/tools/dev_eval.sh /verif/refactorings/$n/patch.diff $T 2>&1 | grep -v WARNING)
  if [ -n "$out" ]; then echo "== $n"; echo "$out"; else echo "== $n silent"; fi
done
