#!/bin/bash
# run every registered quick (or thorough) command in parallel and summarise
tier=${1:-quick}
cd /verif
for n in 01 02 03 04 05 06 07 08 09 10 11 12 13 14 15 16 17 18 19 20; do
  ( /venv/bin/python -m verifstat check C$n --tier $tier > /tmp/verif_run_C$n.log 2>&1; echo "C$n exit=$? $(grep '^\[C' /tmp/verif_run_C$n.log | tail -1)" ) &
done
wait
