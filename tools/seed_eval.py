#!/usr/bin/env python3
"""Confirm a seeded breaking change and run the checks against it.

usage: [SEED_SRC=/tmp/seed_out2 SEED_WT_PREFIX=/tmp/seed2_ SEED_VERIF=<snapshot of /verif>] seed_eval.py C06_A [--no-suite] [--own-only]

1. in the scratch worktree /tmp/seed_<ID>: demo passes on the clean checkout, fails with the patch, and the pinned
   suite's stable tests still pass with the patch (tools/baseline_check.py);
2. apply the patch to /repo (git apply), run every check's quick command, undo (git checkout -- .);
3. write /verif/seeded/<name>/{patch.diff, demo.py, notes.md, meta.json}.
"""
import json
import os
import shutil
import subprocess
import sys
from pathlib import Path

name = sys.argv[1]
prop = name.split("_")[0]
src = Path(os.environ.get("SEED_SRC", "/tmp/seed_out")) / name
wt = Path(os.environ.get("SEED_WT_PREFIX", "/tmp/seed_") + prop)
out = Path("/verif/seeded") / name
PY = "/venv/bin/python"


def sh(cmd, **kw):
    return subprocess.run(cmd, shell=True, capture_output=True, text=True, **kw)


def demo(tree):
    env = dict(os.environ, PYTHONPATH=f"{tree}/src")
    r = subprocess.run([PY, str(src / "demo.py"), str(tree)], cwd=str(tree), env=env, capture_output=True, text=True, timeout=900)
    return r.returncode, (r.stdout + r.stderr)[-600:]


meta = {"name": name, "property": prop}
assert (src / "patch.diff").exists(), "no patch"
if not (wt / "src/vector/_version.py").exists():
    shutil.copy("/repo/src/vector/_version.py", wt / "src/vector/_version.py")
assert sh(f"git -C {wt} status --porcelain").stdout.strip() == "", "worktree not clean"
rc0, t0 = demo(wt)
meta["demo_clean_exit"] = rc0
r = sh(f"git -C {wt} apply {src/'patch.diff'}")
if r.returncode:
    print("PATCH DOES NOT APPLY", r.stderr)
    sys.exit(2)
try:
    rc1, t1 = demo(wt)
    meta["demo_patched_exit"] = rc1
    meta["demo_patched_tail"] = t1[-300:]
    if "--no-suite" not in sys.argv:
        b = sh(f"python3 /verif/tools/baseline_check.py {wt} -n 4")
        meta["suite"] = b.stdout.strip().splitlines()[:3]
        meta["suite_ok"] = b.returncode == 0
    elif (out / "meta.json").exists():
        prev = json.loads((out / "meta.json").read_text())
        if "suite_ok" in prev and prev["suite_ok"] is not None:
            meta["suite"] = prev.get("suite")
            meta["suite_ok"] = prev["suite_ok"]
            meta["suite_checked_in_earlier_run"] = True
finally:
    sh(f"git -C {wt} checkout -- .")
print("demo clean/patched:", rc0, meta.get("demo_patched_exit"), "suite_ok:", meta.get("suite_ok"))
# ---- checks against /repo (or, with --checks-from FILE, the recorded outcome of the own property's quick command run on a scratch worktree of /repo HEAD
#      with the patch applied: lines "<name> own=<Cnn> exit=<rc> <count rule;>..." as printed by the evaluation drivers)
results = {}
checks_from = sys.argv[sys.argv.index("--checks-from") + 1] if "--checks-from" in sys.argv else None
if checks_from:
    import re
    for ln in open(checks_from):
        m = re.match(rf"{name} own=(C\d\d) exit=(\d+)\s*(.*)", ln.strip())
        if m:
            rules = sorted(set(re.findall(r"(C\d\d\.[a-z0-9-]+)", m.group(3))))
            results[m.group(1)] = {"exit": int(m.group(2)), "rules": rules, "violations": None, "ran_on": "scratch worktree of /repo HEAD with the patch applied"}
    assert prop in results, f"no recorded result for {name}"
else:
    assert sh("git -C /repo status --porcelain").stdout.strip() == "", "/repo not clean"
    r = sh(f"git -C /repo apply {src/'patch.diff'}")
    assert r.returncode == 0, r.stderr
try:
    if checks_from:
        raise StopIteration
    procs = {}
    for n in range(1, 21):
        pid = f"C{n:02d}"
        if "--own-only" in sys.argv and pid != prop:
            continue
        env = dict(os.environ, VERIF_NO_EVIDENCE="1", VERIF_OUT=f"/tmp/seed_eval_out/{name}")
        procs[pid] = subprocess.Popen([PY, "-m", "verifstat", "check", pid], cwd=os.environ.get("SEED_VERIF", "/verif"), env=env, stdout=subprocess.PIPE, stderr=subprocess.STDOUT, text=True)
    for pid, p in procs.items():
        text, _ = p.communicate()
        rules = sorted({ln.strip().split(":")[0] for ln in text.splitlines() if ln.startswith("  C")})
        results[pid] = {"exit": p.returncode, "rules": rules, "violations": sum(1 for ln in text.splitlines() if ln.startswith("VIOLATION"))}
        if p.returncode == 2:
            results[pid]["error"] = [ln for ln in text.splitlines() if "ANALYSIS-ERROR" in ln][:1]
except StopIteration:
    pass
finally:
    if not checks_from:
        sh("git -C /repo checkout -- .")
    shutil.rmtree(f"/tmp/seed_eval_out/{name}", ignore_errors=True)
caught = {k: v for k, v in results.items() if v["exit"] == 1}
errs = {k: v for k, v in results.items() if v["exit"] == 2}
meta["checks_reporting_violation"] = caught
meta["checks_analysis_error"] = errs
meta["own_property_check_exit"] = results[prop]["exit"]
print("caught by:", {k: v["rules"] for k, v in caught.items()}, "| analysis errors:", list(errs))
confirmed = rc0 == 0 and meta.get("demo_patched_exit", 0) != 0 and meta.get("suite_ok", True)
meta["confirmed"] = confirmed
if confirmed:
    out.mkdir(parents=True, exist_ok=True)
    for f in ("patch.diff", "demo.py", "notes.md"):
        if (src / f).exists():
            shutil.copy(src / f, out / f)
    meta["what_i_ran"] = ["demo.py on the clean scratch worktree (exit 0) and with the patch (non-zero)", "tools/baseline_check.py on the patched worktree (795 stable tests)",
                          "git -C /repo apply patch.diff; " + ("the quick command of the seed's own property" if "--own-only" in sys.argv else "every check's quick command") + "; git -C /repo checkout -- ."]
    (out / "meta.json").write_text(json.dumps(meta, indent=1))
    print("saved", out)
else:
    print("NOT CONFIRMED", json.dumps(meta, indent=1)[:800])
