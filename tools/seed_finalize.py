#!/usr/bin/env python3
"""Post-process /verif/seeded/*/meta.json: carry over suite confirmations from the evaluation logs of earlier batches and
record the result of each seed against its own property's final check (tools run in /tmp during the session)."""
import json
import re
import sys
from pathlib import Path

root = Path(__file__).resolve().parent.parent / "seeded"
logs = [Path(p) for p in sys.argv[1:] if Path(p).exists() and "own_res" not in p]
own = next((Path(p) for p in sys.argv[1:] if "own_res" in p and Path(p).exists()), None)
suite = {}
for lg in logs:
    name = None
    for line in lg.read_text().splitlines():
        m = re.match(r"=== (\S+)", line)
        if m:
            name = m.group(1)
        m = re.match(r"demo clean/patched: (\d+) (\d+) suite_ok: (True|False|None)", line)
        if m and name and m.group(3) != "None":
            suite[name] = (m.group(3) == "True", lg.name)
ownres = {}
if own:
    for line in own.read_text().splitlines():
        m = re.match(r"(\S+) own=(C\d\d) exit=(\d)\s*(.*)", line)
        if m:
            rules = sorted(set(re.findall(r"C\d\d\.[a-z0-9-]+", m.group(4))))
            ownres[m.group(1)] = {"property": m.group(2), "exit": int(m.group(3)), "rules": rules}
n = 0
for d in sorted(p for p in root.iterdir() if p.is_dir()):
    mp = d / "meta.json"
    if not mp.exists():
        continue
    meta = json.loads(mp.read_text())
    if meta.get("suite_ok") is None and d.name in suite:
        meta["suite_ok"] = suite[d.name][0]
        meta["suite_checked_in_earlier_run"] = suite[d.name][1]
    if d.name in ownres:
        meta["own_property_final_check"] = ownres[d.name]
    meta["confirmed"] = bool(meta.get("demo_clean_exit") == 0 and meta.get("demo_patched_exit", 0) != 0 and meta.get("suite_ok", False))
    mp.write_text(json.dumps(meta, indent=1))
    n += 1
print(n, "metas updated;", sum(1 for d in root.iterdir() if (d / "meta.json").exists() and json.loads((d / "meta.json").read_text()).get("suite_ok")), "with suite_ok")
