#!/usr/bin/env python3
"""Markdown table of the seeded changes under /verif/seeded (for DESIGN.md section 10) + SUMMARY.json."""
import json
import re
from pathlib import Path

root = Path(__file__).resolve().parent.parent / "seeded"
rows = []
for d in sorted(p for p in root.iterdir() if p.is_dir()):
    mp = d / "meta.json"
    if not mp.exists():
        continue
    m = json.loads(mp.read_text())
    patch = (d / "patch.diff").read_text()
    files = sorted({re.sub(r"^src/vector/", "", f) for f in re.findall(r"^diff --git a/(\S+)", patch, re.M)})
    caught = m.get("checks_reporting_violation", {})
    rules = sorted({r for v in caught.values() for r in v.get("rules", [])})
    errs = sorted(m.get("checks_analysis_error", {}))
    own = m.get("own_property_final_check") or {}
    if own.get("exit") == 1:
        rules = sorted(set(rules) | set(own.get("rules", [])))
    rows.append({"seed": d.name, "property": m.get("property"), "files": files, "caught_by": rules, "analysis_errors": errs,
                 "own_property_check_exit": own.get("exit", m.get("own_property_check_exit")), "own_rules": own.get("rules", []), "confirmed": m.get("confirmed")})
(root / "SUMMARY.json").write_text(json.dumps(rows, indent=1))
print("| seed | files | reported by its own property's check | also reported by |")
print("|---|---|---|---|")
for r in rows:
    ownr = [x for x in r["caught_by"] if x.startswith(r["property"] + ".")]
    other = sorted({x.split(".")[0] for x in r["caught_by"] if not x.startswith(r["property"] + ".")})
    print(f"| {r['seed']} | {', '.join('`' + f + '`' for f in r['files'])} | {', '.join(ownr) or '**no**'} | {', '.join(other)} |")
n = len(rows)
print(f"\n{n} seeded changes, {sum(1 for r in rows if r['caught_by'])} reported by at least one check, "
      f"{sum(1 for r in rows if r['own_property_check_exit'] == 1)} by the check of their own property.")
