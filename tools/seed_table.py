#!/usr/bin/env python3
"""Markdown table of the seeded changes under /verif/seeded (for DESIGN.md section 10) + SUMMARY.json."""
import json
import re
from pathlib import Path

root = Path(__file__).resolve().parent.parent / "seeded"
rows = []
for d in sorted(p for p in root.iterdir() if p.is_dir()):
    mp = d / "meta.json"
    if not mp.exists():
        continue
    m = json.loads(mp.read_text())
    patch = (d / "patch.diff").read_text()
    files = sorted({re.sub(r"^src/vector/", "", f) for f in re.findall(r"^diff --git a/(\S+)", patch, re.M)})
    caught = m.get("checks_reporting_violation", {})
    rules = sorted({r for v in caught.values() for r in v.get("rules", [])})
    errs = sorted(m.get("checks_analysis_error", {}))
    rows.append({"seed": d.name, "property": m.get("property"), "files": files, "caught_by": rules, "analysis_errors": errs,
                 "own_property_check_exit": m.get("own_property_check_exit"), "confirmed": m.get("confirmed")})
(root / "SUMMARY.json").write_text(json.dumps(rows, indent=1))
print("| seed | files | reported by |")
print("|---|---|---|")
for r in rows:
    print(f"| {r['seed']} | {', '.join('`' + f + '`' for f in r['files'])} | {', '.join(r['caught_by']) or '**not reported**'}"
          + (f" (exit 2 in {', '.join(r['analysis_errors'])})" if r["analysis_errors"] else "") + " |")
n = len(rows)
print(f"\n{n} seeded changes, {sum(1 for r in rows if r['caught_by'])} reported by at least one check, "
      f"{sum(1 for r in rows if r['own_property_check_exit'] == 1)} by the check of their own property.")
