"""verifstat — static analysis deciding the 20 given properties of scikit-hep/vector.

Nothing here calls a compute function, method, operator or constructor of ``vector``
on data.  See /verif/DESIGN.md.
"""
