"""CLI:  python -m verifstat check <Cnn> [--tier quick|thorough] [--only KEY]
         python -m verifstat replay <path>
         python -m verifstat list
"""
from __future__ import annotations

import argparse
import importlib
import json
import os
import sys

from .core import run_check

PROPS = {
    # id: (module, level)
    "C01": ("c01", "proof"),
    "C02": ("c02", "proof"),
    "C03": ("c03", "other"),
    "C04": ("c04", "other"),
    "C05": ("c05", "other"),
    "C06": ("c06", "other"),
    "C07": ("c07", "other"),
    "C08": ("c08", "other"),
    "C09": ("c09", "proof"),
    "C10": ("c10", "proof"),
    "C11": ("c11", "proof"),
    "C12": ("c12", "proof"),
    "C13": ("c13", "proof"),
    "C14": ("c14", "other"),
    "C15": ("c15", "other"),
    "C16": ("c16", "other"),
    "C17": ("c17", "other"),
    "C18": ("c18", "other"),
    "C19": ("c19", "other"),
    "C20": ("c20", "other"),
}


def main(argv=None) -> int:
    ap = argparse.ArgumentParser(prog="verifstat")
    sub = ap.add_subparsers(dest="cmd", required=True)
    c = sub.add_parser("check")
    c.add_argument("prop")
    c.add_argument("--tier", default=os.environ.get("VERIF_TIER") or "quick", choices=["quick", "thorough"])
    c.add_argument("--only", default=None, help="restrict reporting to one finding key (rule::construct)")
    c.add_argument("--repo", default=None)
    r = sub.add_parser("replay")
    r.add_argument("path")
    sub.add_parser("list")
    st = sub.add_parser("selftest")
    st.add_argument("--jobs", type=int, default=16)
    st.add_argument("--prop", default=None)
    args = ap.parse_args(argv)

    if args.cmd == "list":
        for k, (m, lvl) in PROPS.items():
            print(k, m, lvl)
        return 0
    if args.cmd == "replay":
        rec = json.loads(open(args.path).read())
        prop = rec["property"]
        key = f"{rec['rule']}::{rec['construct']}"
        os.environ["VERIF_NO_EVIDENCE"] = "1"
        return _check(prop, "quick", key)
    if args.cmd == "selftest":
        from . import selftest

        return selftest.main(args.jobs, args.prop)
    if args.repo:
        os.environ["VERIF_REPO"] = args.repo
    return _check(args.prop, args.tier, args.only)


def _check(prop, tier, only) -> int:
    if prop not in PROPS:
        print(f"ANALYSIS-ERROR: unknown property {prop}")
        return 2
    modname, level = PROPS[prop]
    try:
        mod = importlib.import_module(f"verifstat.props.{modname}")
    except ModuleNotFoundError as e:
        print(f"ANALYSIS-ERROR property={prop}: check not built ({e})")
        return 2

    def fn(ctx):
        from . import shared
        from .core import AnalysisError as _AE

        stopped = None
        try:
            mod.run(ctx)
        except _AE as e:
            stopped = e  # the shared rules may still explain why (e.g. a construct outside the kernel fragment): run them, then re-raise
        try:
            if not os.environ.get('VERIF_NO_SHARED'):  # development only (tools/refac_eval.sh): a rule's verdict is the same under every name it is applied
                shared.apply(ctx, prop)
        except _AE:
            if stopped is None:
                raise
        if stopped is not None:
            raise stopped
        if only is not None:
            ctx.findings = [f for f in ctx.findings if f.key == only]
        if tier == "thorough" and only is None and not os.environ.get("VERIF_NO_SELFTEST") and not os.environ.get("VERIF_NO_EVIDENCE"):
            # E7: the checker itself is tested both ways on scratch copies of the current tree
            from . import selftest
            from .core import AnalysisError
            from .core import load_known
            known = load_known()
            unlisted = [f for f in ctx.findings if (known.get((prop, f.key)) or {}).get("status") != "known"]
            if unlisted:
                ctx.analysed["selftest"] = "skipped: the tree under analysis has unlisted violations"
                return
            results, problems = selftest.run_for_prop(prop)
            ctx.analysed["selftest"] = {"variants": len(results), "results": results}
            # only meaningful when the tree itself is clean of new violations; a checker that misses its own seeded
            # mutants or fires on an equivalent edit is broken, not the repository
            if problems:
                raise AnalysisError("checker self-test failed: " + "; ".join(problems))

    return run_check(prop, tier, fn, getattr(mod, "LEVEL", level), mod.EXPLANATION, only)


if __name__ == "__main__":
    rc = main()
    sys.stdout.flush()
    os._exit(rc)
