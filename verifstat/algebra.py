"""Helpers to state kernel identities: call repository kernels symbolically and compare in the ring."""
from __future__ import annotations

from . import ir, nf
from .core import AnalysisError
from .entries import Entry, entries_of
from .loader import fn_where


def P(*names):
    return [ir.param(n) for n in names]


def c(v):
    return ir.const(v)


def add(a, b):
    return ir.mk("op", "+", a, b)


def sub(a, b):
    return ir.mk("op", "-", a, b)


def mul(a, b):
    return ir.mk("op", "*", a, b)


def div(a, b):
    return ir.mk("op", "/", a, b)


def neg(a):
    return ir.mk("neg", a)


def lib(name, *args):
    return ir.mk("lib", name, tuple(args), ())


def total(xs):
    r = xs[0]
    for x in xs[1:]:
        r = add(r, x)
    return r


class Kernels:
    """symbolic access to dispatch-table entries by short name: K('spatial.cross', 'xy_z_xy_z', extras, coords)"""

    def __init__(self, L, inliner=None):
        self.L = L
        self.inl = inliner or ir.Inliner()
        self._by_name: dict = {}

    def entry(self, mod: str, signame: str) -> Entry:
        modname = f"vector._compute.{mod}"
        tab = self._by_name.get(modname)
        if tab is None:
            tab = {e.signame: e for e in entries_of(self.L, modname)}
            self._by_name[modname] = tab
        e = tab.get(signame)
        if e is None:
            raise AnalysisError(f"anchor {mod}[{signame}] missing from the dispatch table")
        return e

    def __call__(self, mod: str, signame: str, *args):
        """args: extras then coordinates (Nodes); returns list of output Nodes"""
        e = self.entry(mod, signame)
        if len(args) != len(e.params) - 1:
            raise AnalysisError(f"{e.name}: kernel takes {len(e.params) - 1} arguments after lib, obligation passes {len(args)}")
        out = self.inl.inline(e.fn, [ir.LIB, *args])
        return ir.outputs(out)

    def where(self, mod, signame):
        return fn_where(self.entry(mod, signame).fn)

    def ret(self, mod, signame):
        return self.entry(mod, signame).ret


def equal_vec(ring: nf.Ring, xs, ys):
    """component-wise equality; returns (ok, index of first differing component, residual text)"""
    if len(xs) != len(ys):
        return False, -1, f"arity {len(xs)} vs {len(ys)}"
    for i, (x, y) in enumerate(zip(xs, ys)):
        a, b = ring.of(x), ring.of(y)
        if not a.eq(b):
            return False, i, ring.show_poly(a.residual(b))
    return True, None, None
