"""E4a — boolean abstraction: formulas over comparison atoms, compared by truth table."""
from __future__ import annotations

import itertools

from . import ir
from .core import AnalysisError


class Formula:
    """('atom', id) | ('not', f) | ('and', f, g) | ('or', f, g) | ('const', bool)"""


class BoolAbs:
    def __init__(self, ring):
        self.ring = ring
        self.atoms: dict = {}  # key -> index
        self.desc: list = []  # index -> human text
        self.info: list = []  # index -> (kind, node a, node b, ...)

    def atom(self, key, text, info):
        i = self.atoms.get(key)
        if i is None:
            i = len(self.desc)
            self.atoms[key] = i
            self.desc.append(text)
            self.info.append(info)
        return ("atom", i)

    def of(self, n: ir.Node):
        k = n.kind
        ring = self.ring
        if k == "op" and n.a[0] in ("&", "|"):
            return ("and" if n.a[0] == "&" else "or", self.of(n.a[1]), self.of(n.a[2]))
        if k == "not":
            return ("not", self.of(n.a[0]))
        if k == "const" and n.a[0] == "bool":
            return ("const", bool(n.a[1]))
        if k == "cmp":
            o, x, y = n.a
            a, b = ring.of(x), ring.of(y)
            if o in ("==", "!="):
                if a.key() == b.key():
                    return ("const", o == "==")
                ka, kb = sorted([a.key(), b.key()])
                f = self.atom(("eq", ka, kb), f"{ir.show(x)} == {ir.show(y)}", ("eq", x, y))
                return f if o == "==" else ("not", f)
            # orderings: a < b is the atom; a >= b its negation (no NaN, as the property states)
            if o == "<":
                return self.atom(("lt", a.key(), b.key()), f"{ir.show(x)} < {ir.show(y)}", ("lt", x, y))
            if o == ">":
                return self.atom(("lt", b.key(), a.key()), f"{ir.show(y)} < {ir.show(x)}", ("lt", y, x))
            if o == ">=":
                return ("not", self.atom(("lt", a.key(), b.key()), f"{ir.show(x)} < {ir.show(y)}", ("lt", x, y)))
            if o == "<=":
                return ("not", self.atom(("lt", b.key(), a.key()), f"{ir.show(y)} < {ir.show(x)}", ("lt", y, x)))
        if k == "lib":
            name, args, kw = n.a
            key = ("lib", name, tuple(ring.of(x).key() for x in args), tuple((kk, ring.of(v).key()) for kk, v in kw))
            return self.atom(key, ir.show(n), ("lib", name, args, kw))
        raise AnalysisError(f"boolean abstraction: not a boolean expression: {ir.show(n)[:120]}")


def atoms_in(f, acc=None):
    if acc is None:
        acc = set()
    if f[0] == "atom":
        acc.add(f[1])
    elif f[0] == "not":
        atoms_in(f[1], acc)
    elif f[0] in ("and", "or"):
        atoms_in(f[1], acc)
        atoms_in(f[2], acc)
    return acc


def evalf(f, asg):
    t = f[0]
    if t == "atom":
        return asg[f[1]]
    if t == "const":
        return f[1]
    if t == "not":
        return not evalf(f[1], asg)
    if t == "and":
        return evalf(f[1], asg) and evalf(f[2], asg)
    if t == "or":
        return evalf(f[1], asg) or evalf(f[2], asg)
    raise AssertionError(t)


def compare(f, g, max_atoms=16):
    """None if f ≡ g over all assignments of their joint atoms, else a differing assignment"""
    ats = sorted(atoms_in(f) | atoms_in(g))
    if len(ats) > max_atoms:
        raise AnalysisError(f"truth table over {len(ats)} atoms exceeds the bound {max_atoms}")
    for bits in itertools.product((True, False), repeat=len(ats)):
        asg = dict(zip(ats, bits))
        if evalf(f, asg) != evalf(g, asg):
            return asg
    return None


def conj(fs):
    fs = list(fs)
    if not fs:
        return ("const", True)
    r = fs[0]
    for f in fs[1:]:
        r = ("and", r, f)
    return r


def is_conjunction_of_atoms(f):
    """list of atom ids if f is a pure conjunction of distinct positive atoms, else None"""
    out = []

    def rec(g):
        if g[0] == "atom":
            out.append(g[1])
            return True
        if g[0] == "and":
            return rec(g[1]) and rec(g[2])
        return False

    return out if rec(f) else None
