"""Bookkeeping shared by every check: obligations, anchors, verdicts, evidence, known findings.

Exit codes: 0 held (known findings printed), 1 VIOLATION, 2 ANALYSIS-ERROR.
"""
from __future__ import annotations

import json
import os
import sys
import time
import traceback
from pathlib import Path

VERIF = Path(__file__).resolve().parent.parent
EVIDENCE_DIR = VERIF / "evidence"
OUT_DIR = Path(os.environ.get("VERIF_OUT") or (VERIF / "out"))
KNOWN_FILE = VERIF / "known_findings.json"


class AnalysisError(Exception):
    """The analysis could not be carried out (missing anchor, unsupported construct)."""


class Finding:
    __slots__ = ("rule", "construct", "message", "witness", "where")

    def __init__(self, rule, construct, message, witness=None, where=None):
        self.rule = rule
        self.construct = construct
        self.message = message
        self.witness = witness
        self.where = where

    @property
    def key(self):
        return f"{self.rule}::{self.construct}"

    def as_dict(self):
        return {
            "rule": self.rule,
            "construct": self.construct,
            "message": self.message,
            "witness": self.witness,
            "where": self.where,
        }


def repo_root() -> Path:
    return Path(os.environ.get("VERIF_REPO", "/repo")).resolve()


class Ctx:
    """Collects what a check examined and decided."""

    def __init__(self, prop_id: str, tier: str, only: str | None = None):
        self.prop_id = prop_id
        self.tier = tier
        self.repo = repo_root()
        self.src = self.repo / "src"
        self.seed = int(os.environ.get("VERIF_SEED", "0") or 0)
        self.findings: list[Finding] = []
        self.rule_counts: dict[str, list[int]] = {}  # rule -> [examined, held]
        self.rule_doc: dict[str, str] = {}
        self.constructs: set[str] = set()
        self.samples: list = []
        self.sample_rules: dict[str, int] = {}
        self.not_decided: list[str] = []
        self.anchors: dict[str, dict] = {}
        self.analysed: dict[str, object] = {}
        self.assumptions: list[str] = []
        self.trusted_base: list[str] = []
        self.t0 = time.time()
        self.only = only
        self._only_rules = None  # sub-context of include(): record only these rules
        self._filter = None

    # -- obligations -------------------------------------------------------------
    def rule(self, rule: str, doc: str):
        self.rule_doc[rule] = doc
        self.rule_counts.setdefault(rule, [0, 0])

    def ob(self, rule, construct, ok, message="", witness=None, where=None, sample=None):
        """Record one decided obligation.  ok: True (held) / False (violated)."""
        if self._only_rules is not None and (rule not in self._only_rules or (self._filter is not None and not self._filter(rule, construct))):
            return ok
        c = self.rule_counts.setdefault(rule, [0, 0])
        c[0] += 1
        self.constructs.add(f"{rule}::{construct}")
        if ok:
            c[1] += 1
        else:
            self.findings.append(Finding(rule, construct, message, witness, where))
        if sample is not None and self.sample_rules.get(rule, 0) < 2:
            self.sample_rules[rule] = self.sample_rules.get(rule, 0) + 1
            self.samples.append(
                {"rule": rule, "construct": construct, "verdict": "held" if ok else "violated", "detail": sample}
            )
        return ok

    def undecided(self, rule, construct, reason):
        """An obligation that was decided on the pinned tree can no longer be decided."""
        raise AnalysisError(f"UNDECIDED {rule} {construct}: {reason}")

    def include(self, run_fn, mapping: dict, why: str, construct_filter=None):
        """Apply rules that another property's check implements to this property as well.

        run_fn is the other check's run(ctx); mapping {its rule: name under this property}; construct_filter(rule, construct)
        restricts the instances.  The other check runs on a scratch context that records only the mapped rules (its anchors
        are skipped: they guard its own claims); obligations, findings and samples are copied under the new names, so a
        known finding has to be listed under the new key to be suppressed here."""
        sub = Ctx(self.prop_id, "quick")  # shared rules always run at the other check's quick depth
        sub.repo, sub.src = self.repo, self.src
        sub._only_rules = set(mapping)
        sub._filter = construct_filter
        try:
            run_fn(sub)
        except AnalysisError as e:
            # the other check could not finish (its own exit-2 condition, reported when that property is checked); what it
            # decided of the shared rules before stopping is still used here, and the gap is stated
            self.decline(f"shared rules {sorted(mapping.values())}: the check they come from stopped early ({str(e)[:160]}); only the instances decided before that are included")
        for old, new in mapping.items():
            self.rule(new, f"{sub.rule_doc.get(old, old)}  [rule {old}, applied to this property because {why}]")
            cnt = sub.rule_counts.get(old, [0, 0])
            mine = self.rule_counts.setdefault(new, [0, 0])
            mine[0] += cnt[0]
            mine[1] += cnt[1]
        for f in sub.findings:
            if f.rule in mapping:
                self.findings.append(Finding(mapping[f.rule], f.construct, f.message, f.witness, f.where))
        for c in sub.constructs:
            r, _, rest = c.partition("::")
            if r in mapping:
                self.constructs.add(f"{mapping[r]}::{rest}")
        for smp in sub.samples:
            if smp.get("rule") in mapping and self.sample_rules.get(mapping[smp["rule"]], 0) < 1:
                self.sample_rules[mapping[smp["rule"]]] = 1
                self.samples.append(dict(smp, rule=mapping[smp["rule"]]))
        return {new: list(self.rule_counts[new]) for new in mapping.values()}

    def anchor(self, name: str, found: int, minimum: int):
        if self._only_rules is not None:
            return
        self.anchors[name] = {"found": found, "minimum": minimum}
        if found < minimum:
            raise AnalysisError(
                f"anchor '{name}': found {found}, need at least {minimum} (construct vanished or was renamed)"
            )

    def decline(self, text: str):
        self.not_decided.append(text)

    # -- finishing ---------------------------------------------------------------
    def finish(self, level: str, explanation: str, checker_cmd: str) -> int:
        known = load_known()
        wall = time.time() - self.t0
        unlisted = []
        listed = []
        for f in self.findings:
            ent = known.get((self.prop_id, f.key))
            if ent is not None and ent.get("status") == "known":
                listed.append((f, ent))
            else:
                unlisted.append(f)
        examined = sum(c[0] for c in self.rule_counts.values())
        held = sum(c[1] for c in self.rule_counts.values())
        cov = {
            "explanation": explanation,
            "evaluations": examined,
            "distinct_nontrivial": len(self.constructs),
            "rule": "one evaluation = one decided obligation (rule instance on a named construct of /repo's "
            "current source); distinct_nontrivial = number of distinct (rule, construct) pairs, each of which "
            "has a non-vacuous obligation (vacuous instances are not recorded)",
            # instances listed in known_findings.json are genuine defects of the library, reported on every run as KNOWN-FINDING:
            # they are not part of what this run claims to have established, so they are counted apart from the obligations
            "obligations": examined - len(listed),
            "discharged": held,
            "known_finding_instances": len(listed),
            "checker_cmd": checker_cmd,
            "trusted_base": self.trusted_base
            or ["python ast/inspect", "verifstat engines (see DESIGN.md section 2)"],
            "samples": self.samples[:40] or [{"note": "no samples recorded"}],
            "rules": {
                r: {"doc": self.rule_doc.get(r, ""), "examined": c[0], "held": c[1]}
                for r, c in sorted(self.rule_counts.items())
            },
            "anchors": self.anchors,
            "analysed": self.analysed,
            "not_decided": self.not_decided,
            "exhaustive": True,
            "known_findings_reported": [f.key for f, _ in listed],
            "repo": str(self.repo),
        }
        ev = {
            "property_id": self.prop_id,
            "tier": self.tier,
            "seed": self.seed,
            "level": level,
            "coverage": cov,
            "assumptions": self.assumptions,
            "wall_s": round(wall, 3),
            "violations": len(unlisted),
        }
        if not os.environ.get("VERIF_NO_EVIDENCE"):
            EVIDENCE_DIR.mkdir(exist_ok=True)
            tmp = EVIDENCE_DIR / f".{self.prop_id}.{os.getpid()}.tmp"
            tmp.write_text(json.dumps(ev, indent=1, default=str) + "\n")
            tmp.replace(EVIDENCE_DIR / f"{self.prop_id}.json")
        for f, ent in listed:
            print(f"KNOWN-FINDING: property={self.prop_id} {f.key} — {ent.get('what', f.message)}")
        print(
            f"[{self.prop_id}/{self.tier}] obligations={examined} held={held} "
            f"violated={len(self.findings)} (known {len(listed)}) rules={len(self.rule_counts)} "
            f"wall={wall:.1f}s"
        )
        if unlisted:
            d = OUT_DIR / self.prop_id
            d.mkdir(parents=True, exist_ok=True)
            for old in d.glob("*.json"):
                try:
                    old.unlink()
                except FileNotFoundError:
                    pass
            cap = 300
            if len(unlisted) > cap:
                # keep the report readable: every rule keeps its first instances; the rest are counted
                per_rule: dict = {}
                kept = []
                for f in unlisted:
                    k = per_rule.get(f.rule, 0)
                    if k < max(20, cap // max(1, len({x.rule for x in unlisted}))):
                        kept.append(f)
                    per_rule[f.rule] = k + 1
                print(f"  ({len(unlisted)} violations; listing {len(kept)}: " + ", ".join(f"{r} x{c}" for r, c in sorted(per_rule.items())) + ")")
                unlisted = kept
            for n, f in enumerate(unlisted):
                p = d / f"{n}.json"
                rec = f.as_dict()
                rec["property"] = self.prop_id
                rec["rerun"] = f"/venv/bin/python -m verifstat check {self.prop_id} --only '{f.key}'"
                p.write_text(json.dumps(rec, indent=1, default=str) + "\n")
                print(f"  {f.rule}: {f.construct}: {f.message}" + (f" [{f.where}]" if f.where else ""))
                if f.witness is not None:
                    print(f"    witness: {json.dumps(f.witness, default=str)[:600]}")
                print(f"VIOLATION property={self.prop_id} replay={p}")
            return 1
        return 0


def load_known() -> dict:
    if not KNOWN_FILE.exists():
        return {}
    data = json.loads(KNOWN_FILE.read_text())
    out = {}
    for ent in data.get("findings", []):
        out[(ent["property"], ent["key"])] = ent
    return out


def run_check(prop_id: str, tier: str, fn, level: str, explanation: str, only=None) -> int:
    ctx = Ctx(prop_id, tier, only)
    cmd = f"/venv/bin/python -m verifstat check {prop_id} --tier {tier}"
    try:
        fn(ctx)
        return ctx.finish(level, explanation, cmd)
    except AnalysisError as e:
        print(f"ANALYSIS-ERROR property={prop_id}: {e}")
        # violations decided before the analysis had to stop are still violations: report them (exit 1) rather than hide them behind exit 2
        known = load_known()
        if any((known.get((prop_id, f.key)) or {}).get("status") != "known" for f in ctx.findings):
            ctx.analysed["analysis_stopped_early"] = str(e)[:300]
            os.environ["VERIF_NO_EVIDENCE"] = "1"
            return ctx.finish(level, explanation, cmd)
        return 2
    except Exception:  # noqa: BLE001
        traceback.print_exc(file=sys.stdout)
        print(f"ANALYSIS-ERROR property={prop_id}: internal error (traceback above)")
        return 2
