"""E3b — Cartesian denotation of table entries and agreement between native bases.

Every stored coordinate of operand i is written in terms of Cartesian generators X_i, Y_i, Z_i, T_i by its
*documented* definition (rho = sqrt(X^2+Y^2), phi = arctan2(Y, X), theta = arccos(Z/mag), eta = arcsinh(Z/rho),
tau = copysign(sqrt|T^2-mag^2|, T^2-mag^2)); the entry's body is inlined on these expressions; a vector
result is converted back to Cartesian components by the documented definitions of the declared result classes.
Two entries of one module agree iff their Cartesian denotations have the same ring normal form under the
inverse-function rule family (cos/sin/tan of arccos/arctan/arctan2, sinh/cosh/exp of arcsinh, exp of log,
sqrt of quotients, wrapped angles) - identities valid on the representable domain the property states
(off the z axis for theta/eta storage, t >= 0 for tau storage).

`numeric()` evaluates an expression DAG of this module's own IR on floats; it is used only to turn an
*undecided* comparison into a refutation with a concrete witness, never to establish a claim.
"""
from __future__ import annotations

import math

from . import ir, nf
from .algebra import add, c, div, lib, mul, neg, sub
from .core import AnalysisError
from .entries import Entry

RULES = ["inverse_trig", "trig_arctan2", "angle_addition", "nan_to_num_id", "exp_neg", "exp_log", "sinh_arcsinh", "cancel"]


def sq(a):
    return mul(a, a)


def generators(i):
    return {k: ir.param(f"{k}{i}") for k in ("X", "Y", "Z", "T")}


def stored_in_generators(kind, g):
    X, Y, Z, T = g["X"], g["Y"], g["Z"], g["T"]
    rho = lib("sqrt", add(sq(X), sq(Y)))
    mag2 = add(add(sq(X), sq(Y)), sq(Z))
    if kind == "x":
        return X
    if kind == "y":
        return Y
    if kind == "rho":
        return rho
    if kind == "phi":
        return lib("arctan2", Y, X)
    if kind == "z":
        return Z
    if kind == "theta":
        return lib("arccos", div(Z, lib("sqrt", mag2)))
    if kind == "eta":
        return lib("arcsinh", div(Z, rho))
    if kind == "t":
        return T
    if kind == "tau":
        # forward timelike/lightlike representable vectors: tau = sqrt(T^2 - mag^2)
        return lib("sqrt", sub(sq(T), mag2))
    raise AnalysisError(f"unknown coordinate kind {kind}")


def to_cartesian(L, classes, comps):
    """documented definitions of the declared result classes -> (x, y[, z][, t]) nodes"""
    out = []
    az = classes[0]
    if az is L.methods.AzimuthalXY:
        x, y = comps[0], comps[1]
        rho = lib("sqrt", add(sq(x), sq(y)))
    else:
        rho, phi = comps[0], comps[1]
        x, y = mul(rho, lib("cos", phi)), mul(rho, lib("sin", phi))
    out += [x, y]
    if len(classes) >= 2:
        lo = classes[1]
        v = comps[2]
        if lo is L.methods.LongitudinalZ:
            z = v
        elif lo is L.methods.LongitudinalTheta:
            z = div(rho, lib("tan", v))
        else:
            z = mul(rho, lib("sinh", v))
        out.append(z)
    if len(classes) >= 3:
        te = classes[2]
        v = comps[3]
        if te is L.methods.TemporalT:
            t = v
        else:
            mag2 = add(add(sq(out[0]), sq(out[1])), sq(out[2]))
            t = lib("sqrt", add(sq(v), mag2))  # tau >= 0 on the representable domain
        out.append(t)
    return out


class Denoter:
    def __init__(self, L):
        self.L = L
        self.inl = ir.Inliner()

    def denote(self, e: Entry, extras=None):
        """Cartesian denotation of an entry: list of nodes over X_i, Y_i, Z_i, T_i and the extras"""
        args = [ir.LIB]
        args += extras if extras is not None else [ir.param(n) for n in e.extra_names()]
        for i, ks in enumerate(e.kinds):
            g = generators(i + 1)
            args += [stored_in_generators(k, g) for k in ks]
        out = self.inl.inline(e.fn, args)
        outs = ir.outputs(out)
        classes = [r for r in e.ret if r is not None and r in self.L.COORD_NAMES]
        if not classes:
            return ("scalar", outs)
        need = sum(len(self.L.COORD_NAMES[cc]) for cc in classes)
        if need != len(outs):
            raise AnalysisError(f"{e.name}: result arity mismatch")
        return ("vector", to_cartesian(self.L, classes, outs))


# ---- numeric evaluation of the IR (witness search only) ---------------------------------------------------

_FN = {
    "sqrt": lambda v: math.sqrt(v), "absolute": abs, "sin": math.sin, "cos": math.cos, "tan": math.tan, "sinh": math.sinh, "cosh": math.cosh,
    "exp": math.exp, "log": math.log, "arctan": math.atan, "arccos": math.acos, "arcsinh": math.asinh, "arcsin": math.asin,
    "sign": lambda v: (v > 0) - (v < 0) + 0.0,
}


def numeric(n: ir.Node, env: dict, memo=None):
    if memo is None:
        memo = {}
    r = memo.get(n.id)
    if r is not None:
        return r
    k = n.kind
    if k == "param":
        v = env[n.a[0]]
    elif k == "const":
        t, val = n.a
        if isinstance(val, str):
            v = float(val) if val not in ("nan",) else float("nan")
        else:
            v = float(val)
    elif k == "libattr":
        v = {"pi": math.pi, "inf": math.inf}[n.a[0]]
    elif k == "neg":
        v = -numeric(n.a[0], env, memo)
    elif k == "op":
        o, x, y = n.a
        a, b = numeric(x, env, memo), numeric(y, env, memo)
        if o == "+":
            v = a + b
        elif o == "-":
            v = a - b
        elif o == "*":
            v = a * b
        elif o == "/":
            v = a / b
        elif o == "**":
            v = a ** b
        elif o == "%":
            v = math.fmod(a, b)
            if v != 0 and (v < 0) != (b < 0):
                v += b
        elif o == "&":
            v = float(bool(a) and bool(b))
        elif o == "|":
            v = float(bool(a) or bool(b))
        else:
            raise ValueError(o)
    elif k == "cmp":
        o, x, y = n.a
        a, b = numeric(x, env, memo), numeric(y, env, memo)
        v = float({"==": a == b, "!=": a != b, "<": a < b, ">": a > b, "<=": a <= b, ">=": a >= b}[o])
    elif k == "lib":
        name, args, kw = n.a
        av = [numeric(x, env, memo) for x in args]
        if name in _FN:
            v = _FN[name](*av)
        elif name == "arctan2":
            v = math.atan2(av[0], av[1])
        elif name == "copysign":
            v = math.copysign(av[0], av[1])
        elif name == "maximum":
            v = max(av)
        elif name == "minimum":
            v = min(av)
        elif name == "nan_to_num":
            v = av[0]
            kv = {kk: numeric(x, env, memo) for kk, x in kw}
            if v != v:
                v = kv.get("nan", 0.0)
            elif v == math.inf:
                v = kv.get("posinf", v)
            elif v == -math.inf:
                v = kv.get("neginf", v)
        elif name == "isclose":
            a, b, rtol, atol = av[:4]
            v = float(abs(a - b) <= atol + rtol * abs(b))
        else:
            raise ValueError(name)
    else:
        raise ValueError(k)
    memo[n.id] = v
    return v


POINTS = [
    {"X": 0.7, "Y": -1.3, "Z": 0.4, "T": 3.1}, {"X": -1.1, "Y": 0.6, "Z": -0.9, "T": 2.7}, {"X": 0.3, "Y": 0.8, "Z": 1.7, "T": 4.2},
    {"X": -0.5, "Y": -0.4, "Z": 0.2, "T": 1.9}, {"X": 1.9, "Y": 0.1, "Z": -2.3, "T": 5.5},
]


def find_disagreement(a_nodes, b_nodes, extras_env=None, tol=1e-7):
    """evaluate both denotations at a few representable points (operand i uses POINTS[(j+i) % n]); first mismatch or None"""
    names = sorted({x.a[0] for nd in list(a_nodes) + list(b_nodes) for x in ir.walk(nd) if x.kind == "param"})
    for j in range(len(POINTS)):
        env = dict(extras_env or {})
        for nm in names:
            if nm in env:
                continue
            if nm[0] in "XYZT" and nm[1:].isdigit():
                env[nm] = POINTS[(j + int(nm[1:])) % len(POINTS)][nm[0]]
            else:
                env[nm] = [0.37, -0.81, 1.3, 0.55, -1.7][(j + len(nm)) % 5]
        for idx, (x, y) in enumerate(zip(a_nodes, b_nodes)):
            try:
                va, vb = numeric(x, env), numeric(y, env)
            except (ValueError, ZeroDivisionError, OverflowError, TypeError):
                continue
            if isinstance(va, complex) or isinstance(vb, complex) or va != va or vb != vb:
                continue
            if abs(va - vb) > tol * (1 + abs(va) + abs(vb)):
                return {"component": idx, "point": {k: v for k, v in env.items()}, "values": [va, vb]}
    return None
