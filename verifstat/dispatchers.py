"""Summaries of the 82 ``dispatch`` functions of the compute layer (syntax only)."""
from __future__ import annotations

import ast

from .core import AnalysisError
from .loader import parse_file, unparse

TYPEFN = {"_aztype": "azimuthal", "_ltype": "longitudinal", "_ttype": "temporal"}


def _subst(node, env):
    """copy of the expression with Name loads bound in env replaced by their (already substituted) defining expressions"""
    import copy

    class T(ast.NodeTransformer):
        def visit_Name(self, n):
            if isinstance(n.ctx, ast.Load) and n.id in env:
                return copy.deepcopy(env[n.id])
            return n

    return ast.fix_missing_locations(T().visit(copy.deepcopy(node)))


_PARAMS: dict = {}


def _param_names(which):
    """parameter names of _from_signature (vector/_methods.py) and of the backends' _wrap_result (without self), read from the analysed tree"""
    if which not in _PARAMS:
        from .loader import facts
        try:
            if which == "_from_signature":
                fn = facts("src/vector/_methods.py").functions.get("_from_signature")
                _PARAMS[which] = [a.arg for a in fn.args.args] if fn is not None else None
            else:
                fn = facts("src/vector/backends/object.py").method("VectorObject2D", "_wrap_result")
                _PARAMS[which] = [a.arg for a in fn.args.args][1:] if fn is not None else None
        except Exception:  # noqa: BLE001
            _PARAMS[which] = None
    return _PARAMS[which]


def _positional(call, params):
    """the same call with its keyword arguments moved into positional order (f(a, c=z, b=y) -> f(a, y, z)); unchanged when that is not possible"""
    if not isinstance(call, ast.Call) or not call.keywords or params is None:
        return call
    kw = {k.arg: k.value for k in call.keywords}
    rest = params[len(call.args):]
    if None in kw or set(kw) != set(rest):
        return call
    return ast.copy_location(ast.Call(func=call.func, args=[*call.args, *[kw[p] for p in rest]], keywords=[]), call)


class DispatchSummary:
    def __init__(self, path, fn: ast.FunctionDef):
        self.path = path
        self.fn = fn
        self.line = fn.lineno
        self.params = [a.arg for a in fn.args.args]
        self.sig_items: list = []  # ('type', group, operand) | ('extra', expr)
        self.table_name = None
        self.in_errstate = False
        self.errstate_args = None
        self.handler_expr = None  # 'v' | '_handler_of(v1, v2)'
        self.flavor_expr = None
        self.lib_expr = None
        self.extra_args: list[str] = []
        self.star_args: list = []  # (operand, group)
        self.returns_arg = None
        self.num_vecargs = None
        self.statements_outside_with: list[str] = []
        self.problems: list[str] = []
        self._parse()

    def _parse(self):
        body = [s for s in self.fn.body if not (isinstance(s, ast.Expr) and isinstance(s.value, ast.Constant))]
        # single-assignment locals are names for sub-expressions: substitute them, so that a dispatcher written with temporaries
        # (signature = (...); flavor = ...; result = compute(...)) is read like the nested one-expression form
        pre: dict = {}
        while body and isinstance(body[0], ast.Assign) and len(body[0].targets) == 1 and isinstance(body[0].targets[0], ast.Name) \
                and unparse(body[0].targets[0]) not in ("function",):
            nm = body[0].targets[0].id
            if nm in pre or nm in self.params:
                break
            pre[nm] = _subst(body[0].value, pre)
            body = body[1:]
        if body and isinstance(body[0], ast.Assign):
            body = [ast.Assign(targets=body[0].targets, value=_subst(body[0].value, pre), lineno=body[0].lineno)] + body[1:]
        if not body or not isinstance(body[0], ast.Assign):
            self.problems.append("first statement is not `function, *returns = _from_signature(...)`")
            return
        a0 = body[0]
        if unparse(a0.targets[0]) != "(function, *returns)" and unparse(a0.targets[0]) != "function, *returns":
            self.problems.append(f"unexpected unpacking target {unparse(a0.targets[0])}")
        call = _positional(a0.value, _param_names("_from_signature"))
        if not (isinstance(call, ast.Call) and unparse(call.func) == "_from_signature" and len(call.args) == 3):
            self.problems.append("not a _from_signature(name, table, signature) call")
            return
        if unparse(call.args[0]) != "__name__":
            self.problems.append("_from_signature is not given __name__")
        self.table_name = unparse(call.args[1])
        sig = call.args[2]
        if not isinstance(sig, ast.Tuple):
            self.problems.append("signature is not a tuple display")
            return
        for el in sig.elts:
            if isinstance(el, ast.Call) and unparse(el.func) in TYPEFN and len(el.args) == 1 and isinstance(el.args[0], ast.Name):
                self.sig_items.append(("type", TYPEFN[unparse(el.func)], el.args[0].id))
            else:
                self.sig_items.append(("extra", unparse(el)))
        rest = body[1:]
        withs = [s for s in rest if isinstance(s, ast.With)]
        self.statements_outside_with = [unparse(s)[:80] for s in rest if not isinstance(s, ast.With)]
        if len(withs) != 1:
            self.problems.append(f"expected exactly one with-block, found {len(withs)}")
            return
        w = withs[0]
        if len(w.items) == 1 and isinstance(w.items[0].context_expr, ast.Call) and unparse(w.items[0].context_expr.func) == "numpy.errstate":
            self.in_errstate = True
            ce = w.items[0].context_expr
            self.errstate_args = ", ".join([unparse(a) for a in ce.args] + [f"{k.arg}={unparse(k.value)}" for k in ce.keywords])
        else:
            self.problems.append("with-block is not numpy.errstate(...)")
        env = {}
        nodes = dict(pre)
        ret = None
        for st in w.body:
            if isinstance(st, ast.Assign) and isinstance(st.targets[0], ast.Name) and len(st.targets) == 1:
                nm = st.targets[0].id
                if nm in nodes:
                    self.problems.append(f"local {nm} assigned twice in dispatch()")
                val = _subst(st.value, nodes)
                nodes[nm] = val
                env[nm] = unparse(val)
            elif isinstance(st, ast.Return):
                ret = _subst(st.value, nodes) if st.value is not None else None
            else:
                self.problems.append(f"unexpected statement in with-block: {unparse(st)[:60]}")
        if ret is None:
            self.problems.append("no return inside the with-block")
            return
        if isinstance(ret, ast.Call) and isinstance(ret.func, ast.Attribute) and ret.func.attr == "_wrap_result":
            ret = _positional(ret, _param_names("_wrap_result"))
        if not (isinstance(ret, ast.Call) and isinstance(ret.func, ast.Attribute) and ret.func.attr == "_wrap_result" and len(ret.args) == 4):
            self.problems.append("return is not <handler>._wrap_result(flavor, result, returns, num_vecargs)")
            return
        h = unparse(ret.func.value)
        self.handler_expr = env.get(h, h)
        self.flavor_expr = unparse(ret.args[0])
        self.returns_arg = unparse(ret.args[2])
        try:
            self.num_vecargs = ast.literal_eval(ret.args[3])
        except Exception:  # noqa: BLE001
            self.problems.append("num_vecargs is not a literal")
        inner = ret.args[1]
        if not (isinstance(inner, ast.Call) and isinstance(inner.func, ast.Call) and isinstance(inner.func.func, ast.Attribute)
                and inner.func.func.attr == "_wrap_dispatched_function" and unparse(inner.func.args[0]) == "function"):
            self.problems.append("result is not <handler>._wrap_dispatched_function(function)(...)")
            return
        h2 = unparse(inner.func.func.value)
        if env.get(h2, h2) != self.handler_expr:
            self.problems.append("_wrap_dispatched_function and _wrap_result use different handlers")
        args = inner.args
        if not args:
            self.problems.append("compute call has no arguments")
            return
        self.lib_expr = unparse(args[0])
        seen_star = False
        for a in args[1:]:
            if isinstance(a, ast.Starred):
                seen_star = True
                v = a.value
                if isinstance(v, ast.Attribute) and v.attr == "elements" and isinstance(v.value, ast.Attribute) and isinstance(v.value.value, ast.Name):
                    self.star_args.append((v.value.value.id, v.value.attr))
                else:
                    self.problems.append(f"starred argument {unparse(a)} is not *<v>.<group>.elements")
            else:
                if seen_star:
                    self.problems.append(f"scalar argument {unparse(a)} after coordinate arguments")
                self.extra_args.append(unparse(a))
        if inner.keywords:
            self.problems.append("keyword arguments in compute call")

    # derived
    def operands(self):
        ops: list = []
        for it in self.sig_items:
            if it[0] == "type":
                if not ops or ops[-1][0] != it[2]:
                    ops.append((it[2], []))
                ops[-1][1].append(it[1])
        return ops

    def sig_extras(self):
        return [it[1] for it in self.sig_items if it[0] == "extra"]


def dispatch_summary(mod) -> DispatchSummary:
    path = mod.__file__
    tree = parse_file(path)
    for st in tree.body:
        if isinstance(st, ast.FunctionDef) and st.name == "dispatch":
            return DispatchSummary(path, st)
    raise AnalysisError(f"{mod.__name__}: no dispatch() function")
