"""E6 — effect / ownership analysis: every store, classified by the freshness of its base object.

Per function (module-level code is the pseudo-function '<module>'):
  fresh      the base is a local bound, on every assignment to it in this function, to a value allocated
             here: a container display/comprehension, a call to a known allocator (numpy.empty/zeros/ones/
             array, dict/list/set/tuple, copy(), ak.zip, ak.Array ...), or an instantiation of a class
  self-slot  `self.<attr>` (or `cls.<attr>`) store inside a method
  borrowed   everything else: parameters, attributes/items reached from parameters, module or class objects,
             views (x[...], x.view(...)) of borrowed values
Mutating calls (append/update/sort/fill/...), AugAssign on attribute/subscript targets, `del`, and `out=`
keywords are treated as stores.  `.add(`/`.update(` etc. are only mutating when the receiver is known to be a
container (display, dict()/list()/set() call, or a name bound to one) - `.add(` is also a vector method.
"""
from __future__ import annotations

import ast

from .loader import all_source_files, parse_file, rel, unparse

ALLOCATORS = {
    "numpy.empty", "numpy.zeros", "numpy.ones", "numpy.array", "numpy.full", "numpy.empty_like", "numpy.zeros_like",
    "dict", "list", "set", "tuple", "frozenset", "collections.OrderedDict", "numpy.dtype",
    "ak.zip", "awkward.zip", "ak.Array", "awkward.Array", "ak.with_name", "awkward.with_name", "ak.with_field", "awkward.with_field",
    "sorted", "copy.copy", "copy.deepcopy",
}
MUTATORS = {"append", "extend", "insert", "remove", "pop", "clear", "sort", "reverse", "update", "setdefault", "add", "discard",
            "popitem", "fill", "resize", "put", "itemset", "setflags", "setfield", "partition", "byteswap"}
CONTAINER_ONLY = {"add", "update", "pop", "remove", "discard", "clear", "sort", "insert", "extend", "append", "reverse", "setdefault", "popitem"}


class Store:
    __slots__ = ("file", "func", "line", "kind", "target", "base", "cls", "owner", "pidx", "own_star", "origin")

    def __init__(self, file, func, line, kind, target, base, cls, owner, pidx=None, own_star=False, origin=None):
        self.origin = origin  # ('elem-of-param', k) | ('elem-of-result', callee): the base is the loop variable of `for base in <parameter k | local unpacked from callee(...)>`
        self.pidx = pidx  # position of the base among the function's positional parameters (None: not a parameter)
        self.own_star = own_star  # the base is the function's own *args / **kwargs (an object created for this call)
        self.file = file
        self.func = func
        self.line = line
        self.kind = kind  # 'attr' | 'item' | 'aug' | 'del' | 'mutcall' | 'out='
        self.target = target
        self.base = base  # root name of the target expression
        self.cls = cls  # 'fresh' | 'self-slot' | 'borrowed' | 'global'
        self.owner = owner  # class name or None

    @property
    def key(self):
        return f"{self.file}::{self.func}::{self.kind}::{self.target}"

    def as_dict(self):
        return {"file": self.file, "function": self.func, "line": self.line, "kind": self.kind, "target": self.target, "class": self.cls}


def _root(node):
    while isinstance(node, (ast.Attribute, ast.Subscript, ast.Call)):
        node = node.value if not isinstance(node, ast.Call) else node.func
    return node.id if isinstance(node, ast.Name) else None


def _is_alloc(value) -> bool:
    if isinstance(value, (ast.List, ast.Dict, ast.Set, ast.ListComp, ast.DictComp, ast.SetComp, ast.Tuple, ast.GeneratorExp, ast.Constant, ast.JoinedStr)):
        return True
    if isinstance(value, ast.Call):
        fn = unparse(value.func)
        if fn in ALLOCATORS:
            return True
        if fn.endswith(".astype"):
            # ndarray.astype(dtype, copy=False) returns the array itself when the dtype already matches: an alias, not a fresh array
            return not any(k.arg == "copy" and not (isinstance(k.value, ast.Constant) and k.value.value is True) for k in value.keywords)
        if fn.endswith(".copy") or fn.endswith(".tolist") or "create_struct_proxy" in fn:
            return True
        last = fn.split(".")[-1]
        if last[:1].isupper() and not fn.startswith("numpy.ndarray"):
            return True  # class instantiation
    if isinstance(value, ast.IfExp):
        return _is_alloc(value.body) and _is_alloc(value.orelse)
    if isinstance(value, ast.BinOp):
        return True  # arithmetic produces a new value
    return False


def _is_container_expr(value) -> bool:
    if isinstance(value, (ast.List, ast.Dict, ast.Set, ast.ListComp, ast.DictComp, ast.SetComp)):
        return True
    if isinstance(value, ast.Call):
        fn = unparse(value.func)
        return fn in ("dict", "list", "set", "collections.OrderedDict") or fn.endswith(".copy") or fn.endswith(".keys")
    return False


class FunctionEffects(ast.NodeVisitor):
    def __init__(self, file, qual, owner, fn, params, module_names):
        self.file = file
        self.qual = qual
        self.owner = owner
        self.fn = fn
        self.params = set(params)
        a_ = getattr(fn, "args", None)
        self.positional = [x.arg for x in (a_.posonlyargs + a_.args)] if a_ is not None else []
        self.star_names = {x.arg for x in (a_.vararg, a_.kwarg) if x is not None} if a_ is not None else set()
        self.module_names = module_names
        self.assigned: dict[str, list] = {}
        self.loop_over: dict[str, list] = {}
        self.unpacked_from: dict[str, list] = {}
        self.stores: list[Store] = []
        self.globals_declared: set[str] = set()
        body = fn.body if hasattr(fn, "body") else []
        for st in body:
            self._collect(st)
        for st in body:
            self.visit(st)

    def _collect(self, node):
        for sub in ast.walk(node):
            if isinstance(sub, (ast.FunctionDef, ast.ClassDef, ast.Lambda)) and sub is not node:
                continue
            if isinstance(sub, ast.Assign):
                for t in sub.targets:
                    self._bind(t, sub.value)
                    if isinstance(t, (ast.Tuple, ast.List)) and isinstance(sub.value, ast.Call) and isinstance(sub.value.func, ast.Name):
                        for e in t.elts:
                            if isinstance(e, ast.Name):
                                self.unpacked_from.setdefault(e.id, []).append(sub.value.func.id)
            elif isinstance(sub, ast.AnnAssign) and sub.value is not None:
                self._bind(sub.target, sub.value)
            elif isinstance(sub, (ast.For, ast.comprehension)):
                self._bind(sub.target, None)
                if isinstance(sub.target, ast.Name) and isinstance(sub.iter, ast.Name):
                    self.loop_over.setdefault(sub.target.id, []).append(sub.iter.id)
                elif isinstance(sub.target, ast.Tuple) and len(sub.target.elts) == 2 and isinstance(sub.target.elts[1], ast.Name) and isinstance(sub.iter, ast.Call) \
                        and isinstance(sub.iter.func, ast.Name) and sub.iter.func.id == "enumerate" and sub.iter.args and isinstance(sub.iter.args[0], ast.Name):
                    self.loop_over.setdefault(sub.target.elts[1].id, []).append(sub.iter.args[0].id)  # for i, x in enumerate(xs): x runs over xs
            elif isinstance(sub, ast.With):
                for it in sub.items:
                    if it.optional_vars is not None:
                        self._bind(it.optional_vars, None)
            elif isinstance(sub, (ast.Global, ast.Nonlocal)):
                self.globals_declared.update(sub.names)

    def _bind(self, t, value):
        if isinstance(t, ast.Name):
            self.assigned.setdefault(t.id, []).append(value)
        elif isinstance(t, (ast.Tuple, ast.List)):
            for e in t.elts:
                self._bind(e, None)

    def classify(self, base, _depth=0):
        if base is None:
            return "borrowed"
        if base in ("self", "cls") and base in self.params:
            return "self"
        if base in self.globals_declared:
            return "global"
        if base in self.assigned and base not in self.params:
            vals = self.assigned[base]
            if vals and all(v is not None and (_is_alloc(v) or self._fresh_call(v)) for v in vals):
                return "fresh"
            # an alias of other names (order = _coordinate_order): as fresh / global as what it aliases
            if _depth < 3 and vals and all(isinstance(v, ast.Name) and v.id != base for v in vals):
                cs = {self.classify(v.id, _depth + 1) for v in vals}
                if cs == {"fresh"}:
                    return "fresh"
                if cs == {"global"}:
                    return "global"
            return "borrowed"
        if base in self.params:
            return "borrowed"
        return "global"  # module-level / imported name

    def origin_of(self, base):
        its = self.loop_over.get(base)
        if not its or len(set(its)) != 1 or len(self.assigned.get(base, [])) != len(its):
            return None
        src = its[0]
        if src in self.positional and src not in self.assigned:
            return ("elem-of-param", self.positional.index(src))
        fs = self.unpacked_from.get(src)
        if fs and len(set(fs)) == 1 and len(self.assigned.get(src, [])) == len(fs):
            return ("elem-of-result", fs[0])
        return None

    def _fresh_call(self, v):
        """a call of a module-level function of the same file whose every return hands back an object it allocated itself"""
        return isinstance(v, ast.Call) and isinstance(v.func, ast.Name) and v.func.id in self.module_names.get("fresh_fns", ())

    def is_container(self, node):
        if _is_container_expr(node):
            return True
        if isinstance(node, ast.Name) and node.id in self.assigned and node.id not in self.params:
            vals = self.assigned[node.id]
            return bool(vals) and all(v is not None and _is_container_expr(v) for v in vals)
        return False

    def _store(self, node, kind, target):
        base = _root(target)
        c = self.classify(base)
        if c == "self":
            # self.x = ... is a slot store; self.x.y = / self.x[...] = reach into an attribute's object
            depth = 0
            t = target
            while isinstance(t, (ast.Attribute, ast.Subscript)):
                depth += 1
                t = t.value
            c = "self-slot" if depth == 1 and isinstance(target, ast.Attribute) else "self-deep"
            if depth == 1 and isinstance(target, ast.Subscript):
                c = "self-item"
        self.stores.append(Store(self.file, self.qual, getattr(node, "lineno", 0), kind, unparse(target)[:80], base, c, self.owner,
                                 self.positional.index(base) if base in self.positional else None, base in self.star_names, self.origin_of(base)))

    def visit_FunctionDef(self, node):
        return  # nested functions are analysed separately

    visit_AsyncFunctionDef = visit_FunctionDef
    visit_ClassDef = visit_FunctionDef

    def visit_Lambda(self, node):
        self.generic_visit(node)

    def _targets(self, t, node, kind):
        if isinstance(t, (ast.Attribute, ast.Subscript)):
            self._store(node, kind, t)
        elif isinstance(t, (ast.Tuple, ast.List)):
            for e in t.elts:
                self._targets(e, node, kind)
        elif isinstance(t, ast.Name) and t.id in self.globals_declared:
            self.stores.append(Store(self.file, self.qual, node.lineno, "global-name", t.id, t.id, "global", self.owner))

    def visit_Assign(self, node):
        for t in node.targets:
            self._targets(t, node, "attr" if isinstance(t, ast.Attribute) else "item")
        self.generic_visit(node)

    def visit_AnnAssign(self, node):
        if node.value is not None:
            self._targets(node.target, node, "attr" if isinstance(node.target, ast.Attribute) else "item")
        self.generic_visit(node)

    def visit_AugAssign(self, node):
        self._targets(node.target, node, "aug")
        t = node.target
        if isinstance(t, ast.Name) and t.id not in self.globals_declared:
            # `name op= value` mutates in place when name is bound to a list / ndarray: a store unless the name is fresh here
            vals = self.assigned.get(t.id, [])
            risky = t.id in self.params or any(v is not None and not _is_alloc(v) for v in vals)
            if risky and t.id not in ("self", "cls"):
                # loop counters and names bound only to literals / fresh values cannot alias anything
                c = self.classify(t.id)
                if c != "fresh":
                    self.stores.append(Store(self.file, self.qual, node.lineno, "aug-name", t.id, t.id, c if c != "self" else "borrowed", self.owner))
        self.generic_visit(node)

    def visit_Delete(self, node):
        for t in node.targets:
            self._targets(t, node, "del")

    def visit_Call(self, node):
        if isinstance(node.func, ast.Attribute) and node.func.attr in MUTATORS:
            recv = node.func.value
            param_container = (
                isinstance(recv, ast.Name) and recv.id in self.params and recv.id not in ("self", "cls")
                and node.func.attr in CONTAINER_ONLY and node.func.attr not in ("add", "update")
            )
            if node.func.attr not in CONTAINER_ONLY or self.is_container(recv) or self._looks_container(recv) or param_container:
                self._store(node, "mutcall", node.func)
        for k in node.keywords:
            if k.arg == "out":
                self.stores.append(Store(self.file, self.qual, node.lineno, "out=", unparse(node)[:80], _root(k.value), self.classify(_root(k.value)), self.owner))
            if k.arg == "inplace" and isinstance(k.value, ast.Constant) and k.value.value:
                self.stores.append(Store(self.file, self.qual, node.lineno, "inplace=", unparse(node)[:80], None, "borrowed", self.owner))
        self.generic_visit(node)

    def _looks_container(self, recv):
        # attribute chains ending in names that denote registries / dicts in this code base
        s = unparse(recv)
        return s.endswith("behavior") or s.endswith("__dict__") or s in self.module_names.get("containers", ())


_PKG_CONTAINERS: dict = {}


def _package_containers(repo):
    """names bound at module level to a dict / list / set display anywhere in the package"""
    key = str(repo)
    if key not in _PKG_CONTAINERS:
        names = set()
        for p in all_source_files(repo):
            for st in parse_file(p).body:
                if isinstance(st, ast.Assign) and len(st.targets) == 1 and isinstance(st.targets[0], ast.Name) and _is_container_expr(st.value):
                    names.add(st.targets[0].id)
                if isinstance(st, ast.AnnAssign) and isinstance(st.target, ast.Name) and st.value is not None and _is_container_expr(st.value):
                    names.add(st.target.id)
        _PKG_CONTAINERS[key] = names
    return _PKG_CONTAINERS[key]


def borrowed_views(repo):
    """`X.view(T)` call sites where X is an operand of the function (a parameter other than self / cls, or a name bound to one) and T is not numpy.ndarray:
    viewing an array as a vector class runs that class's __array_finalize__ on an object that shares the operand's dtype"""
    out = []
    for p in all_source_files(repo):
        tree = parse_file(p)
        relp = rel(p, repo)
        out.extend(_borrowed_views_in(tree, relp))
    return out


def _derives_from_param(fe, base, params, depth=0):
    """the name is a parameter or is bound to (a part / view / alias of) one: results of calls to functions are values of their own"""
    if base in params:
        return base not in ("self", "cls")
    if depth > 3:
        return False
    for v in fe.assigned.get(base, []):
        node = v
        while isinstance(node, (ast.Attribute, ast.Subscript)) or (isinstance(node, ast.Call) and isinstance(node.func, ast.Attribute)):
            node = node.value if not isinstance(node, ast.Call) else node.func.value
        if isinstance(node, ast.Name) and node.id != base and _derives_from_param(fe, node.id, params, depth + 1):
            return True
        if isinstance(node, ast.Name) and node.id == base and base in params:
            return True
    return False


def _borrowed_views_in(tree, relp):
    out = []
    for fn in ast.walk(tree):
        if not isinstance(fn, (ast.FunctionDef, ast.AsyncFunctionDef)):
            continue
        params = [a.arg for a in fn.args.posonlyargs + fn.args.args + fn.args.kwonlyargs]
        fe = FunctionEffects(relp, fn.name, None, fn, params, {"containers": set()})
        for node in ast.walk(fn):
            if isinstance(node, ast.Call) and isinstance(node.func, ast.Attribute) and node.func.attr == "view" and len(node.args) == 1 and not node.keywords:
                t = unparse(node.args[0])
                if t in ("numpy.ndarray", "np.ndarray"):
                    continue
                base = _root(node.func.value)
                if base in ("self", "cls") or base is None:
                    continue
                if fe.classify(base) == "borrowed" and _derives_from_param(fe, base, params):
                    out.append((relp, fn.name, node.lineno, unparse(node)[:80], base))
    return out


def analyse_file(path, repo):
    tree = parse_file(path)
    relp = rel(path, repo)
    containers = set()
    for st in tree.body:
        if isinstance(st, ast.Assign) and len(st.targets) == 1 and isinstance(st.targets[0], ast.Name) and _is_container_expr(st.value):
            containers.add(st.targets[0].id)
        if isinstance(st, ast.AnnAssign) and isinstance(st.target, ast.Name) and st.value is not None and _is_container_expr(st.value):
            containers.add(st.target.id)
    # names imported from another module of the package where they are module-level containers (the synonym tables of _methods.py ...)
    for st in ast.walk(tree):
        if isinstance(st, ast.ImportFrom) and (st.module or "").startswith("vector"):
            for al in st.names:
                if al.name in _package_containers(repo):
                    containers.add(al.asname or al.name)
    module_names = {"containers": containers, "fresh_fns": set()}
    # module-level functions that return only objects they allocated themselves (two passes: such a function may call another one)
    for _ in range(2):
        for st in tree.body:
            if isinstance(st, ast.FunctionDef):
                params = [a.arg for a in st.args.posonlyargs + st.args.args + st.args.kwonlyargs]
                fe0 = FunctionEffects(relp, st.name, None, st, params, module_names)
                rets = [r.value for r in ast.walk(st) if isinstance(r, ast.Return)]
                if rets and all(r is not None and ((isinstance(r, ast.Name) and fe0.classify(r.id) == "fresh") or (not isinstance(r, ast.Name) and (_is_alloc(r) or fe0._fresh_call(r)))) for r in rets):
                    module_names["fresh_fns"].add(st.name)
    out = []

    def walk(body, prefix, owner):
        for st in body:
            if isinstance(st, (ast.FunctionDef, ast.AsyncFunctionDef)):
                q = f"{prefix}{st.name}"
                decos = [unparse(d) for d in st.decorator_list]
                if any(d.endswith(".setter") for d in decos):
                    q += ".setter"
                params = [a.arg for a in st.args.posonlyargs + st.args.args + st.args.kwonlyargs]
                if st.args.vararg:
                    params.append(st.args.vararg.arg)
                if st.args.kwarg:
                    params.append(st.args.kwarg.arg)
                fe = FunctionEffects(relp, q, owner, st, params, module_names)
                out.extend(fe.stores)
                walk(st.body, q + ".<locals>.", owner)
            elif isinstance(st, ast.ClassDef):
                walk(st.body, f"{prefix}{st.name}.", st.name)
            elif isinstance(st, (ast.If, ast.Try, ast.With, ast.For, ast.While)):
                for fld in ("body", "orelse", "finalbody", "handlers"):
                    sub = getattr(st, fld, [])
                    for h in sub:
                        if isinstance(h, ast.ExceptHandler):
                            walk(h.body, prefix, owner)
                    walk([s for s in sub if not isinstance(s, ast.ExceptHandler)], prefix, owner)

    walk(tree.body, "", None)
    # module-level statements as a pseudo function
    mod = ast.Module(body=[s for s in tree.body if not isinstance(s, (ast.FunctionDef, ast.ClassDef))], type_ignores=[])
    fe = FunctionEffects(relp, "<module>", None, mod, [], module_names)
    out.extend(fe.stores)
    return out


def analyse_repo(repo):
    out = []
    for p in all_source_files(repo):
        out.extend(analyse_file(p, repo))
    return out


def helper_call_sites(repo):
    """{(file, helper name): [[freshness of positional argument i in the caller, ...] per call site]} for calls `name(...)` to
    module-level functions of the same file; freshness: 'fresh' (allocated in the caller, or the caller's own *args/**kwargs), else 'borrowed'"""
    sites: dict = {}
    for p in all_source_files(repo):
        tree = parse_file(p)
        relp = rel(p, repo)
        top = {st.name for st in tree.body if isinstance(st, (ast.FunctionDef, ast.AsyncFunctionDef))}

        def visit_fn(fn, qual):
            params = [a.arg for a in fn.args.posonlyargs + fn.args.args + fn.args.kwonlyargs]
            stars = {x.arg for x in (fn.args.vararg, fn.args.kwarg) if x is not None}
            fe = FunctionEffects(relp, qual, None, fn, params + sorted(stars), {"containers": set()})
            for node in ast.walk(fn):
                if isinstance(node, ast.Call) and isinstance(node.func, ast.Name) and node.func.id in top:
                    fr = []
                    for a in node.args:
                        if isinstance(a, ast.Name):
                            positional = [x.arg for x in fn.args.posonlyargs + fn.args.args]
                            if a.id in stars or fe.classify(a.id) == "fresh":
                                fr.append("fresh")
                            elif a.id in positional and a.id not in fe.assigned:
                                fr.append(("param", qual, positional.index(a.id)))  # the caller's own parameter, handed on unchanged
                            elif len(set(fe.unpacked_from.get(a.id, []))) == 1 and len(fe.assigned.get(a.id, [])) == len(fe.unpacked_from[a.id]):
                                fr.append(("result-of", fe.unpacked_from[a.id][0], qual))  # a local unpacked from the result of one callee
                            else:
                                fr.append("borrowed")
                        else:
                            fr.append("fresh" if _is_alloc(a) else "borrowed")
                    sites.setdefault((relp, node.func.id), []).append(fr)

        def walk(body, prefix):
            for st in body:
                if isinstance(st, (ast.FunctionDef, ast.AsyncFunctionDef)):
                    visit_fn(st, prefix + st.name)
                    walk(st.body, prefix + st.name + ".<locals>.")
                elif isinstance(st, ast.ClassDef):
                    walk(st.body, prefix + st.name + ".")

        walk(tree.body, "")
    return sites
