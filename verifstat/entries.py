"""Enumerate dispatch-table entries with canonical operand parameters."""
from __future__ import annotations

import types

from . import ir
from .core import AnalysisError
from .loader import Linked, fn_ast, fn_qualname, fn_where


class Entry:
    __slots__ = ("mod", "modname", "sig", "fn", "ret", "ops", "extra_sig", "params", "nextra", "kinds", "L")

    def __init__(self, L: Linked, modname, sig, ent):
        self.L = L
        self.modname = modname
        self.mod = L.mods[modname]
        self.sig = sig
        if not isinstance(ent, tuple) or not ent or not isinstance(ent[0], types.FunctionType):
            raise AnalysisError(f"{modname} dispatch_map[{L.sig_name(sig)}] is not (function, *returns)")
        self.fn = ent[0]
        self.ret = tuple(ent[1:])
        self.ops, self.extra_sig = L.split_sig(sig)
        node = fn_ast(self.fn)
        self.params = [a.arg for a in node.args.args]
        self.kinds = [[k for k in L.kinds_of(op)] for op in self.ops]
        ncoord = sum(len(k) for k in self.kinds)
        self.nextra = len(self.params) - 1 - ncoord
        if self.nextra < 0:
            raise AnalysisError(
                f"{self.name}: function {fn_qualname(self.fn)} has {len(self.params)} parameters, "
                f"signature needs lib + {ncoord} coordinates [{fn_where(self.fn)}]"
            )

    @property
    def short(self):
        return self.L.short(self.modname)

    @property
    def signame(self):
        return self.L.sig_name(self.sig)

    @property
    def name(self):
        return f"{self.short}[{self.signame}]"

    def coord_names(self):
        """canonical coordinate parameter names in table order: x1, y1, z1, rho2, ..."""
        out = []
        for i, ks in enumerate(self.kinds):
            out.extend(f"{k}{i + 1}" for k in ks)
        return out

    def extra_names(self):
        return [f"extra{i}" for i in range(self.nextra)]

    def args(self, coord_nodes=None, extra_nodes=None):
        ex = extra_nodes if extra_nodes is not None else [ir.param(n) for n in self.extra_names()]
        co = coord_nodes if coord_nodes is not None else [ir.param(n) for n in self.coord_names()]
        return [ir.LIB, *ex, *co]

    def own_extra_names(self):
        """the function's own names for the extra parameters (after lib)"""
        return self.params[1 : 1 + self.nextra]


def entries_of(L: Linked, modname: str):
    m = L.mods.get(modname)
    if m is None:
        raise AnalysisError(f"anchor module {modname} missing (or has no dispatch_map)")
    return [Entry(L, modname, sig, ent) for sig, ent in m.dispatch_map.items()]


def all_entries(L: Linked):
    for mn in L.mods:
        yield from entries_of(L, mn)
