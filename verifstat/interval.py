"""E5 — interval abstract interpreter over the compute IR (extended reals, endpoints as floats).

Soundness direction: every concrete real value of the expression (for parameter values inside
the declared preconditions) lies in the computed interval.  Endpoints that are multiples of pi
are produced by exact float operations on math.pi (2*pi - pi == pi), so comparisons with
+-pi are exact.  Also records definedness obligations (sqrt / log / arccos arguments).
"""
from __future__ import annotations

import math

from . import ir
from .core import AnalysisError

INF = math.inf
PI = math.pi


class Iv:
    __slots__ = ("lo", "hi")

    def __init__(self, lo, hi):
        if lo > hi:
            raise AnalysisError(f"empty interval [{lo}, {hi}]")
        self.lo = lo
        self.hi = hi

    def __repr__(self):
        def f(x):
            if x == PI:
                return "pi"
            if x == -PI:
                return "-pi"
            if x == PI / 2:
                return "pi/2"
            if x == -PI / 2:
                return "-pi/2"
            return repr(x)
        return f"[{f(self.lo)}, {f(self.hi)}]"

    def within(self, lo, hi):
        return self.lo >= lo and self.hi <= hi

    def join(self, o):
        return Iv(min(self.lo, o.lo), max(self.hi, o.hi))


TOP = Iv(-INF, INF)
BOOL = Iv(0.0, 1.0)


def _mul(a, b):
    if a == 0 or b == 0:
        return 0.0  # 0 * inf treated as 0 for bounds (limits of products of bounded-by-interval values)
    return a * b


def mul(a: Iv, b: Iv) -> Iv:
    c = [_mul(a.lo, b.lo), _mul(a.lo, b.hi), _mul(a.hi, b.lo), _mul(a.hi, b.hi)]
    return Iv(min(c), max(c))


def recip(b: Iv) -> Iv:
    if b.lo > 0 or b.hi < 0:
        return Iv(1.0 / b.hi if b.hi != INF else 0.0, 1.0 / b.lo if b.lo != -INF else 0.0) if b.lo > 0 else \
            Iv(1.0 / b.hi if b.hi != -INF else 0.0, 1.0 / b.lo if b.lo != -INF else 0.0)
    if b.lo == 0 and b.hi > 0:
        return Iv(1.0 / b.hi if b.hi != INF else 0.0, INF)
    if b.hi == 0 and b.lo < 0:
        return Iv(-INF, 1.0 / b.lo if b.lo != -INF else 0.0)
    return TOP


def powi(a: Iv, k: int) -> Iv:
    if k == 0:
        return Iv(1.0, 1.0)
    if k < 0:
        return recip(powi(a, -k))
    if k % 2 == 0:
        lo = 0.0 if a.lo <= 0 <= a.hi else min(abs(a.lo), abs(a.hi)) ** k
        hi = max(abs(a.lo), abs(a.hi)) ** k if max(abs(a.lo), abs(a.hi)) != INF else INF
        return Iv(lo, hi)
    return Iv(a.lo ** k if abs(a.lo) != INF else a.lo, a.hi ** k if abs(a.hi) != INF else a.hi)


def _mono(f, a: Iv, lo_inf=None, hi_inf=None) -> Iv:
    lo = f(a.lo) if abs(a.lo) != INF else (lo_inf if a.lo < 0 else hi_inf)
    hi = f(a.hi) if abs(a.hi) != INF else (hi_inf if a.hi > 0 else lo_inf)
    return Iv(lo, hi)


class Interp:
    def __init__(self, pre):
        """pre: callable(param name) -> Iv"""
        self.pre = pre
        self.memo: dict = {}
        self.definedness: list = []  # (function, argument interval, ok, node text)

    def of(self, n: ir.Node) -> Iv:
        r = self.memo.get(n.id)
        if r is None:
            r = self._of(n)
            self.memo[n.id] = r
        return r

    def _of(self, n: ir.Node) -> Iv:
        k = n.kind
        if k == "param":
            return self.pre(n.a[0])
        if k == "sym":
            return self.pre(n.a[0])
        if k == "const":
            t, v = n.a
            if t in ("int", "float") and not isinstance(v, str):
                return Iv(float(v), float(v))
            if t == "bool":
                return Iv(float(v), float(v))
            if t == "float" and v == "inf":
                return Iv(INF, INF)
            if t == "float" and v == "-inf":
                return Iv(-INF, -INF)
            return TOP  # nan and others
        if k == "libattr":
            if n.a[0] == "pi":
                return Iv(PI, PI)
            if n.a[0] == "inf":
                return Iv(INF, INF)
            return TOP
        if k == "neg":
            a = self.of(n.a[0])
            return Iv(-a.hi, -a.lo)
        if k == "not":
            return BOOL
        if k == "cmp":
            self.of(n.a[1])
            self.of(n.a[2])
            return BOOL
        if k == "op":
            o, x, y = n.a
            if o in ("&", "|", "^"):
                self.of(x)
                self.of(y)
                return BOOL
            if o == "**":
                a = self.of(x)
                b = self.of(y)
                if b.lo == b.hi and float(b.lo).is_integer() and abs(b.lo) <= 64:
                    return powi(a, int(b.lo))
                if b.lo == b.hi and b.lo in (0.5, -0.5, 0.25, 0.16666666666666666):
                    self.definedness.append(("pow-root", a, a.lo >= 0, ir.show(x)[:80]))
                    s = Iv(math.sqrt(max(a.lo, 0.0)) if a.lo != INF else INF, math.sqrt(a.hi) if a.hi not in (INF,) and a.hi >= 0 else (INF if a.hi == INF else 0.0))
                    if b.lo == 0.5:
                        return s
                    if b.lo == -0.5:
                        return recip(s)
                    return Iv(0.0, INF)
                return TOP
            a, b = self.of(x), self.of(y)
            if o == "*" and x is y:
                return powi(a, 2)
            if o == "+":
                return Iv(a.lo + b.lo if not (a.lo == -INF or b.lo == -INF) else -INF, a.hi + b.hi if not (a.hi == INF or b.hi == INF) else INF)
            if o == "-":
                return Iv(a.lo - b.hi if not (a.lo == -INF or b.hi == INF) else -INF, a.hi - b.lo if not (a.hi == INF or b.lo == -INF) else INF)
            if o == "*":
                return mul(a, b)
            if o == "/":
                return mul(a, recip(b))
            if o == "%":
                if a.lo == a.hi and b.lo == b.hi and b.lo != 0 and abs(a.lo) != INF:
                    v = math.fmod(a.lo, b.lo)
                    if v != 0 and (v < 0) != (b.lo < 0):
                        v += b.lo
                    return Iv(v, v)
                if b.lo == b.hi and b.lo > 0:
                    return Iv(0.0, b.lo)
                return TOP
            return TOP
        if k == "lib":
            name, args, kw = n.a
            av = [self.of(x) for x in args]
            kv = {kk: self.of(v) for kk, v in kw}
            return self._lib(name, av, kv, n)
        if k == "tuple":
            raise AnalysisError("interval of a tuple")
        if k == "pyobj":
            return TOP
        raise AnalysisError(f"interval: node kind {k}")

    def _lib(self, name, av, kv, n) -> Iv:
        a = av[0] if av else TOP
        if av and all(x.lo == x.hi and abs(x.lo) != INF for x in av) and name in _POINT:
            try:
                v = _POINT[name](*[x.lo for x in av])
                if v == v:
                    return Iv(v, v)
            except (ValueError, OverflowError, ZeroDivisionError):
                pass
        if name == "sqrt":
            self.definedness.append(("sqrt", a, a.lo >= 0, ir.show(n.a[1][0])[:100]))
            return Iv(math.sqrt(max(a.lo, 0.0)) if a.lo != INF else INF, math.sqrt(a.hi) if 0 <= a.hi < INF else (INF if a.hi == INF else 0.0))
        if name == "absolute":
            if a.lo >= 0:
                return a
            if a.hi <= 0:
                return Iv(-a.hi, -a.lo)
            return Iv(0.0, max(-a.lo, a.hi))
        if name == "sign":
            return Iv(-1.0 if a.lo < 0 else (0.0 if a.lo == 0 else 1.0), 1.0 if a.hi > 0 else (0.0 if a.hi == 0 else -1.0))
        if name == "copysign":
            m = max(abs(a.lo), abs(a.hi))
            s = av[1]
            if s.lo > 0:
                return Iv(0.0 if a.lo <= 0 <= a.hi else min(abs(a.lo), abs(a.hi)), m)
            return Iv(-m, m)
        if name == "exp":
            return _mono(math.exp, Iv(max(a.lo, -700.0) if a.lo != -INF else -INF, min(a.hi, 700.0) if a.hi != INF else INF), 0.0, INF) if True else TOP
        if name == "log":
            self.definedness.append(("log", a, a.lo >= 0, ir.show(n.a[1][0])[:100]))
            return Iv(math.log(a.lo) if 0 < a.lo < INF else -INF, math.log(a.hi) if 0 < a.hi < INF else (INF if a.hi == INF else -INF))
        if name in ("sin", "cos"):
            if name == "sin" and a.lo >= 0 and a.hi <= PI:
                return Iv(0.0, 1.0)
            return Iv(-1.0, 1.0)
        if name == "tan":
            if a.lo >= 0 and a.hi <= PI / 2:
                return Iv(0.0, INF)
            return TOP
        if name == "sinh":
            return _mono(lambda v: math.sinh(max(min(v, 700.0), -700.0)), a, -INF, INF)
        if name == "arcsinh":
            return _mono(math.asinh, a, -INF, INF)
        if name == "arctan":
            return _mono(math.atan, a, -PI / 2, PI / 2)
        if name == "arctan2":
            return Iv(-PI, PI)
        if name == "arccos":
            self.definedness.append(("arccos", a, a.lo >= -1 and a.hi <= 1, ir.show(n.a[1][0])[:100]))
            return Iv(0.0, PI)
        if name == "maximum":
            b = av[1]
            return Iv(max(a.lo, b.lo), max(a.hi, b.hi))
        if name == "minimum":
            b = av[1]
            return Iv(min(a.lo, b.lo), min(a.hi, b.hi))
        if name == "nan_to_num":
            r = a
            if "nan" in kv:
                r = r.join(kv["nan"])
            else:
                r = r.join(Iv(0.0, 0.0))
            if a.hi == INF and "posinf" in kv:
                r = r.join(kv["posinf"])
            if a.lo == -INF and "neginf" in kv:
                r = r.join(kv["neginf"])
            return r
        if name == "isclose":
            return BOOL
        return TOP


_POINT = {
    "copysign": math.copysign, "sign": lambda v: (v > 0) - (v < 0) + 0.0, "arctan2": math.atan2, "sin": math.sin, "cos": math.cos,
    "tan": math.tan, "absolute": abs, "arctan": math.atan, "sinh": math.sinh, "arcsinh": math.asinh, "exp": math.exp,
}


def default_pre(name) -> Iv:
    """documented storage domains, keyed by canonical parameter names (x1, rho2, theta1, ...)"""
    base = name
    if isinstance(name, tuple):  # lifted accessor symbol ('planar.rho', (1,))
        base = name[0].split(".")[-1]
    base = str(base).rstrip("0123456789")
    if base == "rho":
        return Iv(0.0, INF)
    if base == "phi":
        return Iv(-PI, PI)
    if base == "theta":
        return Iv(0.0, PI)
    return TOP


# ---- refutation by singleton abstract values ---------------------------------------------------------

GRID = {"rho": (0.0, 0.5, 2.0), "phi": (-3.0, -1.0, 0.0, 1.0, 3.0), "theta": (0.1, 1.5, 3.0), "*": (-2.0, -0.5, 0.0, 0.5, 2.0)}


def find_counterexample(node: ir.Node, lo, hi, limit=6000):
    """evaluate the expression on singleton intervals (points of the storage domain); return an assignment whose value
    is outside [lo, hi] by more than rounding, or for which a sqrt/arccos/log argument is outside its domain"""
    import itertools
    params = sorted({x.a[0] for x in ir.walk(node) if x.kind == "param"})
    choices = []
    for p in params:
        base = str(p).rstrip("0123456789")
        choices.append(GRID.get(base, GRID["*"]))
    n = 0
    for combo in itertools.product(*choices):
        n += 1
        if n > limit:
            break
        asg = dict(zip(params, combo))
        I = Interp(lambda name: Iv(asg[name], asg[name]))
        try:
            iv = I.of(node)
        except (AnalysisError, ValueError, OverflowError, ZeroDivisionError):
            continue
        for fn, arg, ok, txt in I.definedness:
            if not ok and fn in ("sqrt", "arccos", "log") and arg.hi < (0 if fn != "arccos" else -1) - 1e-9:
                return {"point": asg, "problem": f"{fn} argument {arg.hi!r} outside its domain"}
        if iv.lo == iv.hi or (iv.hi - iv.lo) < 1e-9:
            v = iv.lo
            if v != v:
                continue
            if v < lo - 1e-9 or v > hi + 1e-9:
                return {"point": asg, "value": v}
    return None
