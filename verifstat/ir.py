"""E1 — compute IR: inline straight-line compute functions into hash-consed expression DAGs.

The evaluator is an abstract interpreter of the function's syntax tree; it never calls the
function.  Callee resolution uses the link step (function objects' globals and closure cells).
"""
from __future__ import annotations

import ast
import math
import types

from .core import AnalysisError
from .loader import fn_ast, fn_env, fn_qualname, fn_where


class Unsupported(AnalysisError):
    pass


class Node:
    __slots__ = ("kind", "a", "id")
    _table: dict = {}
    _objs: dict = {}

    def __repr__(self):
        return show(self)


def mk(kind, *a) -> Node:
    key = (kind, a)
    n = Node._table.get(key)
    if n is None:
        n = Node()
        n.kind = kind
        n.a = a
        n.id = len(Node._table)
        Node._table[key] = n
    return n


def param(name):
    return mk("param", name)


def sym(name):
    return mk("sym", name)


def const(v):
    if isinstance(v, float) and (math.isinf(v) or math.isnan(v)):
        return mk("const", "float", repr(v))
    return mk("const", type(v).__name__, v)


LIB = mk("LIB")


def pyobj(o):
    n = mk("pyobj", id(o))
    Node._objs[n.id] = o
    return n


def obj_of(n: Node):
    return Node._objs[n.id]


def tup(*elts):
    return mk("tuple", *elts)


BIN = {
    ast.Add: "+", ast.Sub: "-", ast.Mult: "*", ast.Div: "/", ast.Mod: "%", ast.Pow: "**",
    ast.BitAnd: "&", ast.BitOr: "|", ast.FloorDiv: "//", ast.BitXor: "^",
}
CMP = {ast.Eq: "==", ast.NotEq: "!=", ast.Lt: "<", ast.Gt: ">", ast.LtE: "<=", ast.GtE: ">="}


def show(n: Node, depth=0) -> str:
    """human-readable rendering (for witnesses and samples)"""
    if depth > 12:
        return "…"
    k = n.kind
    if k == "param" or k == "sym":
        return str(n.a[0])
    if k == "const":
        return str(n.a[1])
    if k == "LIB":
        return "lib"
    if k == "libattr":
        return f"lib.{n.a[0]}"
    if k == "neg":
        return f"-({show(n.a[0], depth + 1)})"
    if k == "not":
        return f"~({show(n.a[0], depth + 1)})"
    if k in ("op", "cmp"):
        return f"({show(n.a[1], depth + 1)} {n.a[0]} {show(n.a[2], depth + 1)})"
    if k == "lib":
        args = [show(x, depth + 1) for x in n.a[1]] + [f"{kk}={show(v, depth + 1)}" for kk, v in n.a[2]]
        return f"lib.{n.a[0]}({', '.join(args)})"
    if k == "tuple":
        return "(" + ", ".join(show(x, depth + 1) for x in n.a) + ")"
    if k == "pyobj":
        o = obj_of(n)
        return getattr(o, "__name__", repr(o))
    return f"<{k}>"


class Inliner:
    """Evaluate a compute function's body over Node values.

    ``call_hook(fn, args)`` may return a Node to stand for the call (used by E3 lifting) or
    None to inline.
    """

    MAX_DEPTH = 40

    def __init__(self, call_hook=None):
        self.call_hook = call_hook
        self.memo: dict = {}
        self.visited_fns: set = set()
        self.lib_names: set[str] = set()

    # -- functions -------------------------------------------------------------------
    def inline(self, fn, args, depth=0) -> Node:
        key = (fn, tuple(args))
        r = self.memo.get(key)
        if r is not None:
            return r
        if depth > self.MAX_DEPTH:
            raise Unsupported(f"inlining depth exceeded at {fn_qualname(fn)}")
        node = fn_ast(fn)
        a = node.args
        if a.vararg or a.kwarg or a.kwonlyargs or a.defaults or a.posonlyargs:
            raise Unsupported(f"{fn_qualname(fn)}: non-plain parameter list [{fn_where(fn)}]")
        params = [x.arg for x in a.args]
        if len(params) != len(args):
            raise Unsupported(
                f"{fn_qualname(fn)} takes {len(params)} parameters, called with {len(args)} [{fn_where(fn)}]"
            )
        self.visited_fns.add(fn)
        env = dict(zip(params, args))
        genv = fn_env(fn)
        result = None
        for st in node.body:
            if isinstance(st, ast.Expr) and isinstance(st.value, ast.Constant):
                continue
            if isinstance(st, ast.Assign):
                if len(st.targets) != 1:
                    raise Unsupported(f"{fn_qualname(fn)}: chained assignment")
                val = self.ev(st.value, env, genv, depth, fn)
                tgt = st.targets[0]
                if isinstance(tgt, ast.Name):
                    env[tgt.id] = val
                elif isinstance(tgt, ast.Tuple) and all(isinstance(t, ast.Name) for t in tgt.elts):
                    if val.kind != "tuple" or len(val.a) != len(tgt.elts):
                        raise Unsupported(f"{fn_qualname(fn)}: tuple unpacking of non-tuple / wrong arity")
                    for t, v in zip(tgt.elts, val.a):
                        env[t.id] = v
                else:
                    raise Unsupported(f"{fn_qualname(fn)}: store to {ast.unparse(tgt)} (not a local name)")
            elif isinstance(st, ast.Return):
                if st.value is None:
                    raise Unsupported(f"{fn_qualname(fn)}: bare return")
                result = self.ev(st.value, env, genv, depth, fn)
                break
            else:
                raise Unsupported(
                    f"{fn_qualname(fn)}: statement {type(st).__name__} is outside the straight-line fragment "
                    f"[{fn_where(fn)}]"
                )
        if result is None:
            raise Unsupported(f"{fn_qualname(fn)}: no return")
        self.memo[key] = result
        return result

    # -- expressions -----------------------------------------------------------------
    def ev(self, n, env, genv, depth, fn) -> Node:
        if isinstance(n, ast.Name):
            if n.id in env:
                return env[n.id]
            if n.id in genv:
                v = genv[n.id]
                if isinstance(v, (bool, int, float)):
                    return const(v)
                return pyobj(v)
            raise Unsupported(f"{fn_qualname(fn)}: unresolved name {n.id}")
        if isinstance(n, ast.Constant):
            return const(n.value)
        if isinstance(n, ast.Tuple):
            return tup(*[self.ev(e, env, genv, depth, fn) for e in n.elts])
        if isinstance(n, ast.UnaryOp):
            v = self.ev(n.operand, env, genv, depth, fn)
            if isinstance(n.op, ast.USub):
                return mk("neg", v)
            if isinstance(n.op, ast.UAdd):
                return v
            if isinstance(n.op, ast.Invert):
                return mk("not", v)
            raise Unsupported(f"{fn_qualname(fn)}: unary {type(n.op).__name__}")
        if isinstance(n, ast.BinOp):
            o = BIN.get(type(n.op))
            if o is None:
                raise Unsupported(f"{fn_qualname(fn)}: operator {type(n.op).__name__}")
            return mk("op", o, self.ev(n.left, env, genv, depth, fn), self.ev(n.right, env, genv, depth, fn))
        if isinstance(n, ast.Compare):
            if len(n.ops) != 1:
                raise Unsupported(f"{fn_qualname(fn)}: chained comparison")
            o = CMP.get(type(n.ops[0]))
            if o is None:
                raise Unsupported(f"{fn_qualname(fn)}: comparison {type(n.ops[0]).__name__}")
            return mk("cmp", o, self.ev(n.left, env, genv, depth, fn), self.ev(n.comparators[0], env, genv, depth, fn))
        if isinstance(n, ast.Attribute):
            base = self.ev(n.value, env, genv, depth, fn)
            if base is LIB:
                return mk("libattr", n.attr)
            if base.kind == "pyobj":
                o = obj_of(base)
                if not isinstance(o, types.ModuleType):
                    raise Unsupported(f"{fn_qualname(fn)}: attribute of non-module {o!r}")
                try:
                    v = getattr(o, n.attr)
                except AttributeError as e:
                    raise Unsupported(f"{fn_qualname(fn)}: {o.__name__} has no attribute {n.attr}") from e
                if isinstance(v, (bool, int, float)):
                    return const(v)
                return pyobj(v)
            raise Unsupported(f"{fn_qualname(fn)}: attribute access on a value: {ast.unparse(n)}")
        if isinstance(n, ast.Call):
            f = self.ev(n.func, env, genv, depth, fn)
            if any(k.arg is None for k in n.keywords):
                raise Unsupported(f"{fn_qualname(fn)}: star-args in call {ast.unparse(n)[:60]}")
            args = []
            for a in n.args:
                if isinstance(a, ast.Starred):
                    # f(lib, *coords) with coords a tuple built in this function: the expansion is known statically
                    tv = self.ev(a.value, env, genv, depth, fn)
                    if tv.kind != "tuple":
                        raise Unsupported(f"{fn_qualname(fn)}: star-args in call {ast.unparse(n)[:60]}")
                    args.extend(tv.a)
                else:
                    args.append(self.ev(a, env, genv, depth, fn))
            kw = tuple(sorted(((k.arg, self.ev(k.value, env, genv, depth, fn)) for k in n.keywords), key=lambda t: t[0]))
            if f.kind == "libattr":
                self.lib_names.add(f.a[0])
                return mk("lib", f.a[0], tuple(args), kw)
            if f.kind == "pyobj":
                callee = obj_of(f)
                if isinstance(callee, types.FunctionType):
                    if kw:
                        raise Unsupported(f"{fn_qualname(fn)}: keyword call to compute function {callee.__name__}")
                    if not (callee.__module__ or "").startswith("vector._compute."):
                        raise Unsupported(
                            f"{fn_qualname(fn)}: call to {callee.__module__}.{callee.__name__} outside the compute layer"
                        )
                    if self.call_hook is not None:
                        r = self.call_hook(self, callee, args, depth)
                        if r is not None:
                            return r
                    return self.inline(callee, args, depth + 1)
            raise Unsupported(f"{fn_qualname(fn)}: call of {ast.unparse(n.func)} is not lib.* or a compute function")
        raise Unsupported(f"{fn_qualname(fn)}: expression {type(n).__name__} outside the fragment")


def outputs(n: Node) -> list[Node]:
    return list(n.a) if n.kind == "tuple" else [n]


def walk(n: Node, seen=None):
    """yield every node of the DAG once"""
    if seen is None:
        seen = set()
    stack = [n]
    while stack:
        x = stack.pop()
        if x.id in seen:
            continue
        seen.add(x.id)
        yield x
        if x.kind in ("neg", "not"):
            stack.append(x.a[0])
        elif x.kind in ("op", "cmp"):
            stack.extend(x.a[1:])
        elif x.kind == "lib":
            stack.extend(x.a[1])
            stack.extend(v for _, v in x.a[2])
        elif x.kind == "tuple":
            stack.extend(x.a)
