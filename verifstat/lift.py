"""E3 — template lifting.

For a table entry V of module M with operand signature sigma, compute the *template*: the
ring-normal-form key of V's body in which
  * every stored coordinate parameter is the accessor symbol  <group>.<coord>(i)
    ("coordinate `coord` of operand i"),
  * every call to another compute module N on exactly the coordinates of operand(s)
    i (, j) - validated by value number, not by spelling - is the symbol N(i[,j])
    (for vector-valued N: view components of the geometric result N(i[,j])),
  * everything else is inlined and normalised.
Vector-valued results are reduced to an *underlying result* per coordinate group: if the
components returned for a group are the view components, in the class the entry declares,
of a geometric value G (a lifted vector call, or an accessor of the declared class applied
to an underlying Cartesian-style triple), the group's template is G itself.
"""
from __future__ import annotations

import itertools
import types

from . import ir, nf
from .core import AnalysisError
from .entries import Entry, entries_of
from .loader import Linked, fn_ast

GROUP_OF_KIND = {
    "x": "planar", "y": "planar", "rho": "planar", "phi": "planar",
    "z": "spatial", "theta": "spatial", "eta": "spatial",
    "t": "lorentz", "tau": "lorentz",
}
GROUP_INDEX = {"planar": 0, "spatial": 1, "lorentz": 2}


class ModuleShape:
    __slots__ = ("modname", "dims", "liftable", "nret", "entries", "by_sig")


class Lifting:
    def __init__(self, L: Linked):
        self.L = L
        self.ring = nf.Ring()  # raw value numbers (shared: parameter names are canonical)
        self.raw = ir.Inliner()
        self.shapes: dict[str, ModuleShape] = {}
        self._symtabs: dict = {}
        for mn in L.mods:
            es = entries_of(L, mn)
            sh = ModuleShape()
            sh.modname = mn
            sh.entries = es
            sh.by_sig = {e.sig: e for e in es}
            e0 = es[0]
            sh.dims = [len(o) for o in e0.ops]
            sh.liftable = all(e.nextra == 0 and not e.extra_sig and [len(o) for o in e.ops] == sh.dims for e in es)
            self.shapes[mn] = sh

    # -- symbols -----------------------------------------------------------------------
    def coord_sym(self, kind, opidx):
        return ir.sym((f"{GROUP_OF_KIND[kind]}.{kind}", (opidx,)))

    def canonical_coords(self, ops):
        """raw parameter nodes per operand (x1, y1, ...) and their lifted accessor symbols"""
        raw, lifted = [], []
        for i, op in enumerate(ops):
            ks = self.L.kinds_of(op)
            raw.append([ir.param(f"{k}{i + 1}") for k in ks])
            lifted.append([self.coord_sym(k, i + 1) for k in ks])
        return raw, lifted

    # -- symbol table per operand-signature context ----------------------------------------
    def symtab(self, ops):
        key = tuple(ops)
        tab = self._symtabs.get(key)
        if tab is not None:
            return tab
        tab = {}
        raw, _ = self.canonical_coords(ops)
        L = self.L
        for mn, sh in self.shapes.items():
            if not sh.liftable:
                continue
            short = L.short(mn)
            nd = len(sh.dims)
            for idxs in itertools.product(range(len(ops)), repeat=nd):
                if any(len(ops[i]) < d for i, d in zip(idxs, sh.dims)):
                    continue
                sig = tuple(c for i, d in zip(idxs, sh.dims) for c in ops[i][:d])
                ent = sh.by_sig.get(sig)
                if ent is None:
                    continue
                args = [ir.LIB]
                for i, d in zip(idxs, sh.dims):
                    n = sum(len(L.COORD_NAMES[c]) for c in ops[i][:d])
                    args.extend(raw[i][:n])
                try:
                    e = self.raw.inline(ent.fn, args)
                    k = self.ring.keys_of(e)
                except AnalysisError:
                    continue
                opids = tuple(i + 1 for i in idxs)
                if e.kind == "tuple":
                    G = (short, opids)
                    comps = []
                    pos = 0
                    for cls in ent.ret:
                        if cls is None or cls not in L.COORD_NAMES:
                            continue
                        for _ in L.COORD_NAMES[cls]:
                            comps.append(ir.sym(("vc", G, cls.__name__, pos)))
                            pos += 1
                    if len(comps) != len(e.a):
                        continue
                    val = ir.tup(*comps)
                else:
                    val = ir.sym((short, opids))
                tab.setdefault((mn, k), val)
        self._symtabs[key] = tab
        return tab

    # -- lifting one entry ---------------------------------------------------------------
    def lift_entry(self, e: Entry):
        """returns (lifted output nodes, views) ; views: node id -> (accessor short name, arg nodes)"""
        ops = e.ops
        tab = self.symtab(ops)
        raw_coords, lifted_coords = self.canonical_coords(ops)
        own = e.modname
        views: dict = {}
        ring = self.ring
        rawinl = self.raw
        L = self.L
        # lifted node -> raw node (to compute raw value numbers of call arguments)
        extras = [ir.param(n) for n in e.extra_names()]
        l2r: dict = {}
        for ls, rs in zip(lifted_coords, raw_coords):
            for a, b in zip(ls, rs):
                l2r[a.id] = b

        def to_raw(n: ir.Node) -> ir.Node:
            r = l2r.get(n.id)
            if r is not None:
                return r
            k = n.kind
            if k in ("param", "const", "LIB", "libattr", "pyobj"):
                r = n
            elif k == "sym":
                raise AnalysisError(f"lifting: symbol {n.a[0]} has no raw counterpart")
            elif k in ("neg", "not"):
                r = ir.mk(k, to_raw(n.a[0]))
            elif k in ("op", "cmp"):
                r = ir.mk(k, n.a[0], to_raw(n.a[1]), to_raw(n.a[2]))
            elif k == "lib":
                r = ir.mk("lib", n.a[0], tuple(to_raw(x) for x in n.a[1]), tuple((kk, to_raw(v)) for kk, v in n.a[2]))
            elif k == "tuple":
                r = ir.tup(*[to_raw(x) for x in n.a])
            else:
                raise AnalysisError(f"lifting: node kind {k}")
            l2r[n.id] = r
            return r

        def hook(inl, callee, args, depth):
            cm = callee.__module__
            if cm == own or cm not in self.shapes:
                return None
            rargs = [to_raw(a) for a in args]
            try:
                rawres = rawinl.inline(callee, rargs)
                k = ring.keys_of(rawres)
            except AnalysisError:
                return None
            hit = tab.get((cm, k))
            if hit is not None:
                if hit.kind == "tuple":
                    for h, r in zip(hit.a, rawres.a):
                        l2r.setdefault(h.id, r)
                else:
                    l2r.setdefault(hit.id, rawres)
                return hit
            res = inl.inline(callee, args, depth + 1)
            l2r.setdefault(res.id, rawres)
            short = L.short(cm)
            if short.split(".")[-1] in GROUP_OF_KIND and res.kind != "tuple":
                views.setdefault(res.id, (short, callee.__name__, tuple(args[1:])))
            return res

        inl = ir.Inliner(call_hook=hook)
        largs = [ir.LIB, *extras, *[s for ls in lifted_coords for s in ls]]
        out = inl.inline(e.fn, largs)
        return ir.outputs(out), views, inl

    # -- underlying result -----------------------------------------------------------------
    def template(self, e: Entry):
        """hashable template of an entry: (result descriptor, keys)"""
        outs, views, inl = self.lift_entry(e)
        L = self.L
        ring = self.ring
        ret = e.ret
        classes = [r for r in ret if r is not None and r in L.COORD_NAMES]
        if not classes:
            # scalar-valued (float / bool / other marker)
            if len(outs) != 1:
                raise AnalysisError(f"{e.name}: declares a scalar result but returns {len(outs)} values")
            return ("scalar", L.ret_name(ret)[0] if ret else "?", ring.of(outs[0]).key()), outs
        need = sum(len(L.COORD_NAMES[c]) for c in classes)
        if need != len(outs):
            return ("arity-mismatch", tuple(L.ret_name(ret)), len(outs)), outs
        groups = []
        pos = 0
        for cls in classes:
            n = len(L.COORD_NAMES[cls])
            groups.append((cls, outs[pos:pos + n]))
            pos += n
        desc = []
        prev_under = []  # underlying components of lower groups (for view unwrapping)
        for gi, (cls, comps) in enumerate(groups):
            d = self._underlying(cls, comps, gi, groups, views, prev_under)
            desc.append(d)
        trailing = tuple("None" for r in ret[len(classes):] if r is None)
        return ("vector", tuple(desc), trailing), outs

    def _underlying(self, cls, comps, gi, groups, views, prev_under):
        L = self.L
        ring = self.ring
        # (1) view components of a lifted geometric value
        g = None
        ok = True
        for j, cnode in enumerate(comps):
            if cnode.kind == "sym" and isinstance(cnode.a[0], tuple) and cnode.a[0][0] == "vc":
                _, G, cname, pos = cnode.a[0]
                if cname != cls.__name__:
                    ok = False
                    break
                if g is None:
                    g = G
                elif g != G:
                    ok = False
                    break
            else:
                ok = False
                break
        if ok and g is not None:
            # positions must be the ones of this group in G's own result order
            poss = [c.a[0][3] for c in comps]
            prev_under.append(("G", g))
            return ("geom", g, tuple(poss))
        # (2) an accessor of the declared class applied to (lower groups' underlying..., inner)
        if len(comps) == 1 and comps[0].id in views and gi >= 1:
            short, fname, vargs = views[comps[0].id]
            kind = L.COORD_NAMES[cls][0]
            if short.endswith("." + kind):
                # accessor <kind>.<variant>(lower coords..., inner): variant names the classes of its arguments
                lower = [x for _, cs in groups[:gi] for x in cs]
                if len(vargs) == len(lower) + 1 and all(a is b for a, b in zip(vargs, lower)):
                    inner_kind = fname.split("_")[gi] if len(fname.split("_")) > gi else None
                    az_kind = "_".join(fname.split("_")[:gi])
                    declared_lower = "_".join(L.CLS_SHORT[c] for c, _ in groups[:gi])
                    if inner_kind in GROUP_OF_KIND and az_kind == declared_lower:
                        return ("under", inner_kind, (ring.of(vargs[-1]).key(),))
        if gi == 0 and len(comps) == 2 and all(c.id in views for c in comps):
            (s0, f0, a0), (s1, f1, a1) = views[comps[0].id], views[comps[1].id]
            k0, k1 = L.COORD_NAMES[cls]
            if s0.endswith("." + k0) and s1.endswith("." + k1) and f0 == f1 and a0 == a1 and len(a0) == 2 and f0 in ("xy", "rhophi"):
                return ("under", f0, tuple(ring.of(a).key() for a in a0))
        return ("under", L.CLS_SHORT[cls], tuple(ring.of(c).key() for c in comps))
