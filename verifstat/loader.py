"""E0 — facts loader and link step.

Syntax facts come from ``ast`` over files under <repo>/src/vector.  The link step imports
``vector._compute.*`` the way a linker would (module top-level table-building code runs;
no vector is ever constructed and no compute function is ever called) and reads
``dispatch_map`` objects, closure cells and function sources with ``inspect``.
"""
from __future__ import annotations

import ast
import importlib
import inspect
import sys
import textwrap
import types
from pathlib import Path

from .core import AnalysisError, repo_root

_AST_CACHE: dict[Path, ast.Module] = {}
_SRC_CACHE: dict[Path, str] = {}


def source_text(path: Path) -> str:
    path = Path(path)
    if path not in _SRC_CACHE:
        _SRC_CACHE[path] = path.read_text()
    return _SRC_CACHE[path]


def parse_file(path: Path) -> ast.Module:
    path = Path(path)
    if path not in _AST_CACHE:
        try:
            _AST_CACHE[path] = ast.parse(source_text(path), filename=str(path))
        except SyntaxError as e:
            raise AnalysisError(f"cannot parse {path}: {e}") from e
    return _AST_CACHE[path]


def vector_dir(repo: Path | None = None) -> Path:
    d = (repo or repo_root()) / "src" / "vector"
    if not d.is_dir():
        raise AnalysisError(f"{d} is not a directory")
    return d


def all_source_files(repo: Path | None = None) -> list[Path]:
    return sorted(p for p in vector_dir(repo).rglob("*.py"))


def rel(path, repo: Path | None = None) -> str:
    try:
        return str(Path(path).resolve().relative_to(repo or repo_root()))
    except ValueError:
        return str(path)


# --------------------------------------------------------------------------------------
# link step
# --------------------------------------------------------------------------------------

GROUPS = ("planar", "spatial", "lorentz")


class Linked:
    """The resolved compute layer: modules, dispatch tables, coordinate classes."""

    def __init__(self, repo: Path):
        self.repo = repo
        src = str(repo / "src")
        if sys.path[0] != src:
            sys.path.insert(0, src)
        for name in list(sys.modules):
            if name == "vector" or name.startswith("vector."):
                f = getattr(sys.modules[name], "__file__", None)
                if f and not str(Path(f).resolve()).startswith(src):
                    raise AnalysisError(f"module {name} already imported from {f}, not from {src}")
        try:
            self.vector = importlib.import_module("vector")
            self.methods = importlib.import_module("vector._methods")
            self.groups = {g: importlib.import_module(f"vector._compute.{g}") for g in GROUPS}
        except Exception as e:  # noqa: BLE001
            raise AnalysisError(f"link step: cannot import vector from {src}: {type(e).__name__}: {e}") from e
        vf = str(Path(self.vector.__file__).resolve())
        if not vf.startswith(src):
            raise AnalysisError(f"link step resolved vector to {vf}, expected under {src}")
        M = self.methods
        self.AZ = {M.AzimuthalXY: "xy", M.AzimuthalRhoPhi: "rhophi"}
        self.LO = {M.LongitudinalZ: "z", M.LongitudinalTheta: "theta", M.LongitudinalEta: "eta"}
        self.TE = {M.TemporalT: "t", M.TemporalTau: "tau"}
        self.COORD_NAMES = {
            M.AzimuthalXY: ("x", "y"),
            M.AzimuthalRhoPhi: ("rho", "phi"),
            M.LongitudinalZ: ("z",),
            M.LongitudinalTheta: ("theta",),
            M.LongitudinalEta: ("eta",),
            M.TemporalT: ("t",),
            M.TemporalTau: ("tau",),
        }
        self.CLS_SHORT = {**self.AZ, **self.LO, **self.TE}
        self.mods: dict[str, types.ModuleType] = {}
        for g, pkg in self.groups.items():
            pkgdir = Path(pkg.__file__).parent
            for p in sorted(pkgdir.glob("*.py")):
                if p.name == "__init__.py":
                    continue
                name = f"vector._compute.{g}.{p.stem}"
                try:
                    m = importlib.import_module(name)
                except Exception as e:  # noqa: BLE001
                    raise AnalysisError(f"link step: cannot import {name}: {e}") from e
                if hasattr(m, "dispatch_map"):
                    self.mods[name] = m

    # ---- helpers over signatures -------------------------------------------------
    def split_sig(self, sig):
        """signature tuple -> (list of operand class tuples, tuple of extras)"""
        ops: list[list] = []
        extra = []
        for s in sig:
            if s in self.AZ:
                ops.append([s])
            elif s in self.LO or s in self.TE:
                if not ops:
                    raise AnalysisError(f"signature {sig} has longitudinal/temporal before azimuthal")
                ops[-1].append(s)
            else:
                extra.append(s)
        return [tuple(o) for o in ops], tuple(extra)

    def kinds_of(self, op):
        return [k for c in op for k in self.COORD_NAMES[c]]

    def sig_name(self, sig):
        return "_".join(self.CLS_SHORT.get(c) or (c if isinstance(c, str) else getattr(c, "__name__", str(c))) for c in sig)

    def short(self, modname: str) -> str:
        return modname.replace("vector._compute.", "")

    def ret_name(self, ret):
        out = []
        for r in ret:
            if r is None:
                out.append("None")
            elif r in self.CLS_SHORT:
                out.append(r.__name__)
            elif isinstance(r, type):
                out.append(r.__name__)
            else:
                out.append(repr(r))
        return out


_LINK: dict[Path, Linked] = {}


def link(repo: Path | None = None) -> Linked:
    repo = (repo or repo_root()).resolve()
    if repo not in _LINK:
        _LINK[repo] = Linked(repo)
    return _LINK[repo]


# --------------------------------------------------------------------------------------
# function sources (resolved objects -> AST)
# --------------------------------------------------------------------------------------

_FN_AST: dict[object, ast.FunctionDef] = {}


def fn_ast(fn) -> ast.FunctionDef:
    if fn not in _FN_AST:
        try:
            src = textwrap.dedent(inspect.getsource(fn))
            file = inspect.getsourcefile(fn)
        except (OSError, TypeError) as e:
            raise AnalysisError(f"no source for {fn!r}: {e}") from e
        node = ast.parse(src).body[0]
        if not isinstance(node, ast.FunctionDef):
            raise AnalysisError(f"source of {fn!r} is not a function definition")
        node._file = file  # type: ignore[attr-defined]
        node._line0 = fn.__code__.co_firstlineno  # type: ignore[attr-defined]
        _FN_AST[fn] = node
    return _FN_AST[fn]


def fn_env(fn) -> dict:
    env = dict(fn.__globals__)
    if fn.__closure__:
        for n, c in zip(fn.__code__.co_freevars, fn.__closure__):
            try:
                env[n] = c.cell_contents
            except ValueError:
                pass
    return env


def fn_where(fn) -> str:
    try:
        return f"{rel(inspect.getsourcefile(fn))}:{fn.__code__.co_firstlineno}"
    except Exception:  # noqa: BLE001
        return repr(fn)


def fn_qualname(fn) -> str:
    return f"{fn.__module__.replace('vector._compute.', '')}.{fn.__qualname__}"


# --------------------------------------------------------------------------------------
# small AST utilities used by the structural rules
# --------------------------------------------------------------------------------------

def dotted(node) -> str | None:
    """a.b.c -> 'a.b.c' for Name/Attribute chains, else None"""
    parts = []
    while isinstance(node, ast.Attribute):
        parts.append(node.attr)
        node = node.value
    if isinstance(node, ast.Name):
        parts.append(node.id)
        return ".".join(reversed(parts))
    return None


def unparse(node) -> str:
    return ast.unparse(node)


class ModuleFacts:
    """Classes, functions, and module-level assignments of one source file."""

    def __init__(self, path: Path):
        self.path = Path(path)
        self.tree = parse_file(path)
        self.classes: dict[str, ast.ClassDef] = {}
        self.functions: dict[str, ast.FunctionDef] = {}
        self.assigns: dict[str, ast.AST] = {}
        self.late_attrs: dict[tuple[str, str], ast.AST] = {}  # (Class, attr) -> value node
        for st in self.tree.body:
            if isinstance(st, ast.ClassDef):
                self.classes[st.name] = st
            elif isinstance(st, ast.FunctionDef):
                self.functions[st.name] = st
            elif isinstance(st, ast.Assign):
                for t in st.targets:
                    if isinstance(t, ast.Name):
                        self.assigns[t.id] = st.value
                    elif isinstance(t, ast.Attribute) and isinstance(t.value, ast.Name):
                        self.late_attrs[(t.value.id, t.attr)] = st.value
            elif isinstance(st, ast.AnnAssign) and isinstance(st.target, ast.Name) and st.value is not None:
                self.assigns[st.target.id] = st.value

    def methods(self, cls: str) -> dict[str, list[ast.FunctionDef]]:
        out: dict[str, list[ast.FunctionDef]] = {}
        for st in self.classes[cls].body:
            if isinstance(st, ast.FunctionDef):
                out.setdefault(st.name, []).append(st)
        return out

    def method(self, cls: str, name: str, kind: str | None = None) -> ast.FunctionDef | None:
        """kind: None (plain or property getter), 'setter'"""
        for fn in self.methods(cls).get(name, []):
            decos = [unparse(d) for d in fn.decorator_list]
            is_setter = any(d.endswith(".setter") for d in decos)
            if any("overload" in d for d in decos):
                continue
            if kind == "setter" and is_setter:
                return fn
            if kind is None and not is_setter:
                return fn
        return None

    def bases(self, cls: str) -> list[str]:
        return [unparse(b) for b in self.classes[cls].bases]

    def class_attrs(self, cls: str) -> dict[str, ast.AST]:
        out = {}
        for st in self.classes[cls].body:
            if isinstance(st, ast.Assign):
                for t in st.targets:
                    if isinstance(t, ast.Name):
                        out[t.id] = st.value
            elif isinstance(st, ast.AnnAssign) and isinstance(st.target, ast.Name) and st.value is not None:
                out[st.target.id] = st.value
        for (c, a), v in self.late_attrs.items():
            if c == cls:
                out[a] = v
        return out


_FACTS: dict[Path, ModuleFacts] = {}


def facts(relpath: str, repo: Path | None = None) -> ModuleFacts:
    p = (repo or repo_root()) / relpath
    if not p.exists():
        raise AnalysisError(f"anchor file {relpath} does not exist")
    if p not in _FACTS:
        _FACTS[p] = ModuleFacts(p)
    return _FACTS[p]


def literal(node):
    """ast.literal_eval with AnalysisError"""
    try:
        return ast.literal_eval(node)
    except Exception as e:  # noqa: BLE001
        raise AnalysisError(f"expected a literal, got {unparse(node)[:80]}") from e


def strip_docstring(body):
    if body and isinstance(body[0], ast.Expr) and isinstance(body[0].value, ast.Constant) and isinstance(body[0].value.value, str):
        return body[1:]
    return body


def return_text(fn: ast.FunctionDef | None) -> str | None:
    """text of the function's final return statement with single-assignment local names replaced by their defining
    expressions (so `flag = True; return f(x, flag)` reads `return f(x, True)`); None when there is no function or the
    body is not straight-line assignments followed by a return"""
    if fn is None:
        return None
    body = strip_docstring(fn.body) if "strip_docstring" in globals() else fn.body
    if not body or not isinstance(body[-1], ast.Return):
        return unparse(body[-1]) if body else None
    binds: dict = {}
    for st in body[:-1]:
        if isinstance(st, ast.Assign) and len(st.targets) == 1 and isinstance(st.targets[0], ast.Name):
            nm = st.targets[0].id
            binds[nm] = None if nm in binds else st.value
        elif isinstance(st, (ast.Import, ast.ImportFrom, ast.Expr)):
            continue
        else:
            return unparse(body[-1])
    params = {a.arg for a in fn.args.args}

    class Sub(ast.NodeTransformer):
        def visit_Name(self, node):
            v = binds.get(node.id)
            if isinstance(node.ctx, ast.Load) and v is not None and node.id not in params:
                return self.visit(ast.parse(unparse(v), mode="eval").body)
            return node

    return unparse(Sub().visit(ast.parse(unparse(body[-1])).body[0]))


def resolve_helper_expr(node, mf):
    """an expression that is a call `helper(a, b)` of a module-level function of the same module whose body is one return: the returned expression with the
    helper's parameters replaced by the argument expressions (one level); any other expression is returned unchanged"""
    import copy
    if not (isinstance(node, ast.Call) and isinstance(node.func, ast.Name) and node.func.id in mf.functions and not node.keywords):
        return node
    h = mf.functions[node.func.id]
    body = [st for st in h.body if not (isinstance(st, ast.Expr) and isinstance(st.value, ast.Constant))]
    if len(body) != 1 or not isinstance(body[0], ast.Return) or body[0].value is None or len(h.args.args) != len(node.args):
        return node
    ren = {p.arg: a for p, a in zip(h.args.args, node.args)}

    class Ren(ast.NodeTransformer):
        def visit_Name(self, n):
            return copy.deepcopy(ren[n.id]) if n.id in ren else n

    return Ren().visit(copy.deepcopy(body[0].value))
