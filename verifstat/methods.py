"""Summaries of the method layer (src/vector/_methods.py classes Planar/Spatial/Lorentz ...).

For every method: which compute modules it imports, every ``<module>.dispatch(args)`` site
with the branch conditions leading to it, the guards (calls / raises) executed before it.
"""
from __future__ import annotations

import ast

from .core import AnalysisError
from .loader import ModuleFacts, facts, strip_docstring, unparse

METHODS_FILE = "src/vector/_methods.py"


class DispatchSite:
    __slots__ = ("group", "module", "args", "path", "guards", "line", "via_module_of")

    def __init__(self, group, module, args, path, guards, line, via_module_of=False):
        self.group = group  # 'planar' | 'spatial' | 'lorentz' | None (via _compute_module_of)
        self.module = module
        self.args = args  # list[str]
        self.path = path  # list[str]  branch conditions on the way ('not (...)' for else)
        self.guards = guards  # list[str] statements executed before on this path (calls, raises under if)
        self.line = line
        self.via_module_of = via_module_of

    def as_dict(self):
        return {
            "group": self.group, "module": self.module, "args": self.args, "path": self.path,
            "guards": self.guards, "line": self.line,
        }


class MethodSummary:
    def __init__(self, cls, fn: ast.FunctionDef):
        self.cls = cls
        self.name = fn.name
        self.fn = fn
        self.params = [a.arg for a in fn.args.args]
        self.defaults = {}
        ds = fn.args.defaults
        for a, d in zip(fn.args.args[len(fn.args.args) - len(ds):], ds):
            self.defaults[a.arg] = unparse(d)
        self.is_property = any(unparse(d) == "property" for d in fn.decorator_list)
        self.imports: dict[str, tuple[str, str]] = {}
        self.sites: list[DispatchSite] = []
        self.returns: list[tuple[list[str], str]] = []  # (path, expr) for non-dispatch returns
        self.raises: list[tuple[list[str], str]] = []
        self._walk(strip_docstring(fn.body), [], [])

    def _walk(self, body, path, guards):
        guards = list(guards)
        for st in body:
            if isinstance(st, ast.ImportFrom):
                mod = st.module or ""
                if mod.startswith("vector._compute."):
                    g = mod.split(".")[-1]
                    for al in st.names:
                        self.imports[al.asname or al.name] = (g, al.name)
                continue
            if isinstance(st, ast.If):
                cond = unparse(st.test)
                # an `if c: raise` guard
                if len(st.body) == 1 and isinstance(st.body[0], ast.Raise) and not st.orelse:
                    guards.append(f"if {cond}: raise {self._exc(st.body[0])}")
                    self.raises.append((path + [cond], self._exc(st.body[0])))
                    continue
                self._walk(st.body, path + [cond], guards)
                if st.orelse:
                    self._walk(st.orelse, path + [f"not ({cond})"], guards)
                    # both branches considered terminal in this code base's idiom
                    if self._terminal(st.body) and self._terminal(st.orelse):
                        return
                elif self._terminal(st.body):
                    path = path + [f"not ({cond})"]
                continue
            if isinstance(st, ast.Raise):
                self.raises.append((path, self._exc(st)))
                return
            if isinstance(st, ast.Return):
                site = self._site(st.value, path, guards) if st.value is not None else None
                if site is not None:
                    self.sites.append(site)
                else:
                    self.returns.append((path, unparse(st.value) if st.value is not None else "None"))
                return
            if isinstance(st, ast.Expr) and isinstance(st.value, ast.Call):
                guards.append(unparse(st.value))
                continue
            if isinstance(st, ast.Assign):
                guards.append(unparse(st))
                continue
            guards.append(f"<{type(st).__name__}>")

    @staticmethod
    def _terminal(body):
        return bool(body) and isinstance(body[-1], (ast.Return, ast.Raise))

    @staticmethod
    def _exc(r: ast.Raise):
        if r.exc is None:
            return "<reraise>"
        if isinstance(r.exc, ast.Call):
            return unparse(r.exc.func)
        return unparse(r.exc)

    def _site(self, v, path, guards):
        if not (isinstance(v, ast.Call) and isinstance(v.func, ast.Attribute) and v.func.attr == "dispatch"):
            return None
        base = v.func.value
        args = [unparse(a) for a in v.args]
        if v.keywords:
            # dispatch(phi=roll, ..., v=self): put the keywords in the dispatcher's own parameter order; the call means the same
            params = None
            if isinstance(base, ast.Name) and base.id in self.imports:
                g, nm = self.imports[base.id]
                try:
                    df = facts(f"src/vector/_compute/{g}/{nm}.py").functions.get("dispatch")
                    params = [a.arg for a in df.args.args] if df is not None else None
                except (AnalysisError, OSError):
                    params = None
            kw = {k.arg: unparse(k.value) for k in v.keywords}
            if params is not None and None not in kw and set(kw) == set(params[len(args):]):
                args += [kw[p_] for p_ in params[len(args):]]
            else:
                args += [f"{k.arg}={unparse(k.value)}" for k in v.keywords]
        if isinstance(base, ast.Name):
            imp = self.imports.get(base.id)
            if imp is None:
                return None
            return DispatchSite(imp[0], imp[1], args, list(path), list(guards), v.lineno)
        if isinstance(base, ast.Attribute) and isinstance(base.value, ast.Name) and base.value.id == "module":
            return DispatchSite(None, base.attr, args, list(path), list(guards), v.lineno, via_module_of=True)
        return None


def class_methods(cls: str, mf: ModuleFacts | None = None) -> dict[str, MethodSummary]:
    mf = mf or facts(METHODS_FILE)
    if cls not in mf.classes:
        raise AnalysisError(f"class {cls} not found in {METHODS_FILE}")
    out = {}
    for st in mf.classes[cls].body:
        if isinstance(st, ast.FunctionDef):
            decos = [unparse(d) for d in st.decorator_list]
            if any(d.endswith(".setter") or "overload" in d for d in decos):
                continue
            out[st.name] = MethodSummary(cls, st)
    return out
