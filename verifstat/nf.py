"""E2 — algebraic value numbering: canonical form in Q[params, atoms, atoms^-1] / rules.

A value is a rational function n/d, n and d polynomials (dict monomial -> Fraction) over
*atoms* (parameters and opaque function applications keyed by the keys of their arguments).
Monomial = sorted tuple of (atom_id, exponent), exponents are non-zero integers.

Rewrite rules (each a textbook identity over the reals, applied wherever the monomial
contains the pattern):
  sin(a)^2      -> 1 - cos(a)^2
  sqrt(e)^2     -> e                      (e >= 0 is sqrt's own definedness condition)
  absolute(e)^2 -> e^2
  copysign(a,s)^2 -> a^2
  sign(e)^2     is NOT rewritten (fails at e = 0)
Atom canonicalisation: even functions drop the sign of their argument, odd functions pull
it out; commutative atoms sort their arguments; e**(k/2) becomes sqrt(e)**k.
"""
from __future__ import annotations

import math
from fractions import Fraction

from . import ir
from .core import AnalysisError

ONE = Fraction(1)
ZERO = Fraction(0)

EVEN = {"cos", "cosh", "absolute"}
ODD = {"sin", "tan", "sinh", "tanh", "arctan", "arcsin", "arcsinh", "arctanh", "sign"}
COMMUTATIVE = {"maximum", "minimum"}


def mono_mul(m1, m2):
    if not m1:
        return m2
    if not m2:
        return m1
    d = dict(m1)
    for a, e in m2:
        v = d.get(a, 0) + e
        if v:
            d[a] = v
        else:
            del d[a]
    return tuple(sorted(d.items()))


def p_const(c):
    c = Fraction(c)
    return {(): c} if c else {}


def p_add(p, q, s=1):
    r = dict(p)
    for m, c in q.items():
        v = r.get(m, ZERO) + s * c
        if v:
            r[m] = v
        else:
            r.pop(m, None)
    return r


def p_scale(p, c):
    return {m: v * c for m, v in p.items()} if c else {}


def p_key(p):
    return tuple(sorted(p.items()))


P_ONE = p_const(1)


class R:
    """rational function n/d over a Ring's atoms"""

    __slots__ = ("ring", "n", "d", "_key")

    def __init__(self, ring, n, d=None):
        self.ring = ring
        if d is None:
            d = P_ONE
        elif len(d) == 1:
            (m, c), = d.items()
            if m != () or c != 1:
                inv = {tuple((a, -e) for a, e in m): ONE / c}
                n = ring.p_mul(n, inv)
                d = P_ONE
        elif "cancel" in ring.rules:
            n, d = ring.cancel(n, d)
        if "cancel" in ring.rules and ring.has_neg_radical(n):
            n, d = ring.pull_radicals(n, d)
        self.n = n
        self.d = d
        self._key = None

    # arithmetic
    def __add__(s, o):
        if s.d == o.d:
            return R(s.ring, p_add(s.n, o.n), s.d)
        ring = s.ring
        if "cancel" in ring.rules and s.d is not P_ONE and o.d is not P_ONE:
            # one denominator a multiple of the other: use it as the common denominator
            q = ring.p_divexact(o.d, s.d)
            if q is not None:
                return R(ring, p_add(ring.p_mul(s.n, q), o.n), o.d)
            q = ring.p_divexact(s.d, o.d)
            if q is not None:
                return R(ring, p_add(s.n, ring.p_mul(o.n, q)), s.d)
        return R(ring, p_add(ring.p_mul(s.n, o.d), ring.p_mul(o.n, s.d)), ring.p_mul(s.d, o.d))

    def __neg__(s):
        return R(s.ring, {m: -c for m, c in s.n.items()}, s.d)

    def __sub__(s, o):
        return s + (-o)

    def __mul__(s, o):
        return R(s.ring, s.ring.p_mul(s.n, o.n), s.ring.p_mul(s.d, o.d) if (s.d is not P_ONE or o.d is not P_ONE) else P_ONE)

    def inv(s):
        if not s.n:
            raise ZeroDivisionError("division by the zero polynomial")
        return R(s.ring, s.d, s.n)

    def __truediv__(s, o):
        return s * o.inv()

    def powi(s, k):
        if k < 0:
            return s.inv().powi(-k)
        r = s.ring.const(1)
        b = s
        while k:
            if k & 1:
                r = r * b
            k >>= 1
            if k:
                b = b * b
        return r

    # queries
    def is_poly(s):
        return s.d == P_ONE

    def is_const(s):
        return s.d == P_ONE and all(m == () for m in s.n)

    def const(s):
        return s.n.get((), ZERO)

    def is_zero(s):
        return not s.n

    def key(s):
        if s._key is None:
            n, d = s.n, s.d
            if d is not P_ONE and d:
                lead = min(d.items())[1]
                if lead != 1:
                    n = p_scale(n, ONE / lead)
                    d = p_scale(d, ONE / lead)
            s._key = s.ring.intern((p_key(n), p_key(d)))
        return s._key

    def eq(s, o):
        """equality as rational functions modulo the rules (cross-multiplication)"""
        if s.key() == o.key():
            return True
        ring = s.ring
        a = ring.p_mul(s.n, o.d)
        b = ring.p_mul(o.n, s.d)
        diff = p_add(a, b, -1)
        return not ring.clear_negative(diff)

    def residual(s, o):
        ring = s.ring
        return ring.clear_negative(p_add(ring.p_mul(s.n, o.d), ring.p_mul(o.n, s.d), -1))


class Ring:
    def __init__(self, rules=()):
        self.rules = frozenset(rules)
        self.atom_ids: dict = {}
        self.atom_desc: list = []
        self.red: list = []  # per atom: None or ('sin', cos_id) / ('sqrt', R) / ('abs', R) / ('copysign', R)
        self.keys: dict = {}
        self.memo: dict = {}
        self.positive: set[int] = set()  # atom ids declared > 0 (for sqrt(k^2 e) style optional rules)
        self.atom_args: dict = {}  # atom id -> tuple of argument R's (function atoms)
        self.mod_args: dict = {}  # atom id of `a % b` -> (a, b)

    # -- interning -------------------------------------------------------------------
    def intern(self, k):
        v = self.keys.get(k)
        if v is None:
            v = len(self.keys)
            self.keys[k] = v
        return v

    def atom(self, key, red=None):
        i = self.atom_ids.get(key)
        if i is None:
            i = len(self.atom_desc)
            self.atom_ids[key] = i
            self.atom_desc.append(key)
            self.red.append(red)
        return i

    def const(self, c):
        return R(self, p_const(c))

    def atom_R(self, key, red=None, args=None):
        i = self.atom(key, red)
        if args is not None and i not in self.atom_args:
            self.atom_args[i] = tuple(args)
        return R(self, {((i, 1),): ONE})

    def single_atom(self, r: "R"):
        """atom id if r is exactly one atom with coefficient 1, else None"""
        if r.d == P_ONE and len(r.n) == 1:
            (m, c), = r.n.items()
            if c == 1 and len(m) == 1 and m[0][1] == 1:
                return m[0][0]
        return None

    def param(self, name):
        return self.atom_R(("param", name))

    # -- polynomial product with reduction -----------------------------------------------
    def p_mul(self, p, q):
        if p is P_ONE or p == P_ONE:
            return q
        if q is P_ONE or q == P_ONE:
            return p
        out: dict = {}
        for m1, c1 in p.items():
            for m2, c2 in q.items():
                self._acc(mono_mul(m1, m2), c1 * c2, out)
        return {m: c for m, c in out.items() if c}

    def _acc(self, m, c, out):
        red = self.red
        for a, e in m:
            r = red[a]
            if r is None:
                continue
            kind = r[0]
            if e >= 2:
                rest = tuple((x, y) for x, y in m if x != a)
                if e > 2:
                    rest = mono_mul(rest, ((a, e - 2),))
                if kind == "sin":
                    self._acc(rest, c, out)
                    self._acc(mono_mul(rest, ((r[1], 2),)), -c, out)
                    return
                rep = r[1]
                if rep is not None:
                    for m2, c2 in rep.items():
                        self._acc(mono_mul(rest, m2), c * c2, out)
                    return
            elif e <= -2 and kind != "sin" and len(r) > 2 and r[2] is not None:
                rest = tuple((x, y) for x, y in m if x != a)
                if e < -2:
                    rest = mono_mul(rest, ((a, e + 2),))
                m2, c2 = r[2]
                self._acc(mono_mul(rest, m2), c * c2, out)
                return
        out[m] = out.get(m, ZERO) + c

    # -- exact division / cancellation (rule "cancel") ------------------------------------
    @staticmethod
    def _lexkey(m):
        return tuple(sorted(m, reverse=True))

    def _clear(self, p):
        """(p * cm, cm) with cm the monomial clearing the negative exponents of p"""
        mins: dict = {}
        for m in p:
            for a, e in m:
                if e < 0 and e < mins.get(a, 0):
                    mins[a] = e
        if not mins:
            return p, ()
        cm = tuple(sorted((a, -e) for a, e in mins.items()))
        return self.p_mul(p, {cm: ONE}), cm

    def p_divexact(self, n, g, max_steps=400):
        """q with q*g == n in the ring (each step is an identity computed through p_mul), or None"""
        if not g:
            return None
        if not n:
            return {}
        if len(g) == 1:
            (m, c), = g.items()
            return self.p_mul(n, {tuple((a, -e) for a, e in m): ONE / c})
        n, cn = self._clear(n)
        g, cg_m = self._clear(g)
        lg = max(g, key=self._lexkey)
        cg = g[lg]
        lgd = dict(lg)
        q: dict = {}
        r = dict(n)
        for _ in range(max_steps):
            if not r:
                # n*cn = q * g*cg_m  ->  n/g = q * cg_m / cn
                adj = mono_mul(cg_m, tuple((a, -e) for a, e in cn))
                out = {m: c for m, c in q.items() if c}
                return self.p_mul(out, {adj: ONE}) if adj else out
            lr = max(r, key=self._lexkey)
            lrd = dict(lr)
            if any(e < 0 for e in lrd.values()) or any(lrd.get(a, 0) < e for a, e in lgd.items()):
                return None
            t = tuple(sorted((a, e - lgd.get(a, 0)) for a, e in lrd.items() if e - lgd.get(a, 0)))
            c = r[lr] / cg
            q[t] = q.get(t, ZERO) + c
            r = p_add(r, self.p_mul({t: c}, g), -1)
        return None

    def has_neg_radical(self, p):
        red = self.red
        for m in p:
            for a, e in m:
                if e <= -2:
                    r = red[a]
                    if r is not None and r[0] == "sqrt" and r[1] is not None and len(r[1]) > 1:
                        return True
        return False

    def pull_radicals(self, n, d):
        """s^-2k with s = sqrt(e), e a sum: move e^k into the denominator (X^2/s^2 + Y^2/s^2 is 1 when e = X^2 + Y^2)"""
        red = self.red
        mins: dict = {}
        for m in n:
            for a, e in m:
                if e <= -2 and e < mins.get(a, 0):
                    r = red[a]
                    if r is not None and r[0] == "sqrt" and r[1] is not None and len(r[1]) > 1:
                        mins[a] = e
        if not mins:
            return n, d
        for a, e in mins.items():
            k = (-e) // 2
            n = self.p_mul(n, {((a, 2 * k),): ONE})
            g = red[a][1]
            for _ in range(k):
                d = self.p_mul(d, g)
        if len(d) == 1:
            (m, c), = d.items()
            return self.p_mul(n, {tuple((a, -e) for a, e in m): ONE / c}), P_ONE
        return self.cancel(n, d)

    def _radicands(self, p):
        """(sqrt atom, radicand polynomial) pairs whose radicand has several terms over atoms occurring in p"""
        atoms = {a for m in p for a, _ in m}
        out = []
        for i, r in enumerate(self.red):
            if r is not None and r[0] == "sqrt" and r[1] is not None and len(r[1]) > 1:
                if all(a in atoms for m in r[1] for a, _ in m):
                    out.append((i, r[1]))
        return out

    def as_monomial(self, p):
        """(monomial, coefficient) equal to p, un-reducing sqrt(e)^2 = e when p == monomial * e; else None"""
        if len(p) == 1:
            (m, c), = p.items()
            return m, c
        for i, g in self._radicands(p):
            q = self.p_divexact(p, g)
            if q is not None and len(q) == 1:
                (m, c), = q.items()
                return mono_mul(m, ((i, 2),)), c
        return None

    def cancel(self, n, d):
        """cheap sound simplifications of n/d: conjugate of a binomial denominator, d | n, n | d, common radicand"""
        if not n:
            return n, P_ONE
        if len(d) == 2:
            (m1, c1), (m2, c2) = d.items()
            conj = {m1: c1, m2: -c2}
            mono = self.as_monomial(self.p_mul(d, conj))
            if mono is not None:
                m, c = mono
                inv = {tuple((a, -e) for a, e in m): ONE / c}
                return self.p_mul(self.p_mul(n, conj), inv), P_ONE
        q = self.p_divexact(n, d)
        if q is not None:
            return q, P_ONE
        if len(n) > 1:
            q = self.p_divexact(d, n)
            if q is not None:
                if len(q) == 1:
                    (m, c), = q.items()
                    return {tuple((a, -e) for a, e in m): ONE / c}, P_ONE
                return P_ONE, q
            for _, g in self._radicands(d):
                qd = self.p_divexact(d, g)
                if qd is None:
                    continue
                qn = self.p_divexact(n, g)
                if qn is None:
                    continue
                if len(qd) == 1:
                    (m, c), = qd.items()
                    return self.p_mul(qn, {tuple((a, -e) for a, e in m): ONE / c}), P_ONE
                return self.cancel(qn, qd)
        return n, d

    def clear_negative(self, p):
        """multiply by a common monomial so that no exponent is negative, then reduce"""
        mins: dict = {}
        for m in p:
            for a, e in m:
                if e < 0 and e < mins.get(a, 0):
                    mins[a] = e
        if not mins:
            return {m: c for m, c in p.items() if c}
        mm = {tuple(sorted((a, -e) for a, e in mins.items())): ONE}
        return self.p_mul(p, mm)

    # -- atoms -------------------------------------------------------------------------
    def _sign_norm(self, r: R):
        if not r.n:
            return r, False
        lead = min(r.n.items())[1]
        if lead < 0:
            return -r, True
        return r, False

    def fn(self, name, args, kw=()):
        """lib.<name>(*args, **kw) as a ring value"""
        kwk = tuple((k, v.key()) for k, v in kw)
        rules = self.rules
        if rules:
            if name == "nan_to_num" and "nan_to_num_id" in rules and len(args) == 1:
                return args[0]
            if name in ("cos", "sin") and len(args) == 1:
                if "inverse_trig" in rules:
                    r = self._inverse_rules(name, args[0])
                    if r is not None:
                        return r
                r = self._trig_rules(name, args[0])
                if r is not None:
                    return r
            if "inverse_trig" in rules and len(args) == 1 and name in ("cos", "sin", "tan", "sinh", "cosh", "exp", "absolute"):
                r = self._inverse_rules(name, args[0])
                if r is not None:
                    return r
            if name == "tan" and "angle_addition" in rules and "inverse_trig" in rules and len(args) == 1 and args[0].is_poly() and len(args[0].n) > 1:
                return self.fn("sin", [args[0]]) / self.fn("cos", [args[0]])
            if name == "sinh" and "sinh_arcsinh" in rules and len(args) == 1:
                i = self.single_atom(args[0])
                if i is not None and self.atom_desc[i][:2] == ("fn", "arcsinh"):
                    return self.atom_args[i][0]
            if name == "exp" and "exp_neg" in rules and len(args) == 1:
                a0, fl = self._sign_norm(args[0])
                if fl:
                    return self.atom_R(("fn", "exp", (a0.key(),), ()), None, [a0]).inv()
            if name == "exp" and "exp_log" in rules and len(args) == 1:
                i = self.single_atom(args[0])
                if i is not None and self.atom_desc[i][:2] == ("fn", "log"):
                    return self.atom_args[i][0]
            if name == "log" and "exp_log" in rules and len(args) == 1:
                i = self.single_atom(args[0])
                if i is not None and self.atom_desc[i][:2] == ("fn", "exp"):
                    return self.atom_args[i][0]
            if "log_form" in rules and len(args) == 1 and not kw:
                if name == "arcsinh":
                    u = args[0]
                    return self.fn("log", [u + self.sqrt(self.const(1) + u * u)])
                if name == "log" and not args[0].is_zero():
                    x = args[0]
                    ix = x.inv()
                    if ix.key() < x.key():
                        return -self.atom_R(("fn", "log", (ix.key(),), ()), None, [ix])
            if "domain" in rules and not kw:
                r = self._domain_rules(name, args)
                if r is not None:
                    return r
        if len(args) == 1 and not kw:
            a = args[0]
            if name in EVEN:
                a, _ = self._sign_norm(a)
                if name == "absolute":
                    if a.is_const():
                        return self.const(abs(a.const()))
                    red = self._sq_red("abs", a)
                    return self.atom_R(("fn", name, (a.key(),), ()), red, [a])
                return self.atom_R(("fn", name, (a.key(),), ()), None, [a])
            if name in ODD:
                a, fl = self._sign_norm(a)
                if a.is_zero() and name != "sign":
                    return self.const(0)
                if name == "sin":
                    cos_id = self.atom(("fn", "cos", (a.key(),), ()))
                    r = self.atom_R(("fn", "sin", (a.key(),), ()), ("sin", cos_id), [a])
                else:
                    r = self.atom_R(("fn", name, (a.key(),), ()), None, [a])
                return -r if fl else r
            if name == "sqrt":
                return self.sqrt(a)
        if name == "copysign" and len(args) == 2 and not kw:
            a, s = args
            a, _ = self._sign_norm(a)  # copysign ignores the sign of its first argument
            s, fl = self._sign_norm(s)
            red = self._sq_red("copysign", a)
            r = self.atom_R(("fn", "copysign", (a.key(), s.key()), ()), red, [a, s])
            return -r if fl else r
        if name in COMMUTATIVE and len(args) == 2 and not kw:
            ks = tuple(sorted(a.key() for a in args))
            return self.atom_R(("fn", name, ks, ()))
        return self.atom_R(("fn", name, tuple(a.key() for a in args), kwk), None, args)

    def _trig_rules(self, name, a: R):
        rules = self.rules
        if "trig_arctan2" in rules:
            i = self.single_atom(a)
            neg = False
            if i is None:
                i = self.single_atom(-a)
                neg = i is not None
            if i is not None and self.atom_desc[i][:2] == ("fn", "arctan2"):
                y, x = self.atom_args[i]
                h = self.sqrt(x * x + y * y)
                if name == "cos":
                    return x / h
                return -(y / h) if neg else y / h
        if "angle_addition" in rules and a.is_poly() and a.n:
            terms = sorted(a.n.items())
            m, cf = terms[0]
            if len(terms) == 1:
                if len(m) == 1 and m[0][1] == 1 and self.atom_desc[m[0][0]] == ("libattr", "pi") and (2 * cf).denominator == 1:
                    q = int(2 * cf) % 4  # angle = q * pi/2
                    cv, sv = [(1, 0), (0, 1), (-1, 0), (0, -1)][q]
                    return self.const(cv if name == "cos" else sv)
                if m == () or cf.denominator != 1 or abs(cf) < 2:
                    return None
                first = R(self, {m: Fraction(1 if cf > 0 else -1)})
                rest = R(self, {m: cf - (1 if cf > 0 else -1)})
            else:
                first = R(self, {m: cf})
                rest = R(self, dict(terms[1:]))
            c1, s1 = self.fn("cos", [first]), self.fn("sin", [first])
            c2, s2 = self.fn("cos", [rest]), self.fn("sin", [rest])
            if name == "cos":
                return c1 * c2 - s1 * s2
            return s1 * c2 + c1 * s2
        return None

    def _nonneg_atom(self, i) -> bool:
        d = self.atom_desc[i]
        return i in self.positive or (d[0] == "fn" and d[1] in ("absolute", "sqrt", "exp", "cosh", "arccos"))

    def evident_sign(self, a: "R"):
        """+1 / -1 when every term of the polynomial a has that sign on the declared domain (atoms known
        non-negative or raised to even powers), 0 for the zero polynomial, None when not evident"""
        if not a.is_poly():
            return None
        if not a.n:
            return 0
        sg = None
        for m, c in a.n.items():
            if not all(self._nonneg_atom(x) or y % 2 == 0 for x, y in m):
                return None
            t = 1 if c > 0 else -1
            if sg is None:
                sg = t
            elif sg != t:
                return None
        return sg

    def _strictly_signed(self, a: "R"):
        """evident sign with at least one term that cannot vanish on the domain (a constant or a product of declared-positive atoms)"""
        sg = self.evident_sign(a)
        if sg in (None, 0):
            return None
        for m, c in a.n.items():
            if all(x in self.positive for x, _ in m):
                return sg
        return None

    def _domain_rules(self, name, args):
        if name == "sign" and len(args) == 1:
            sg = self._strictly_signed(args[0])
            if sg is not None:
                return self.const(sg)
        if name == "maximum" and len(args) == 2:
            for a, b in (args, args[::-1]):
                if b.is_zero():
                    sg = self.evident_sign(a)
                    if sg is not None:
                        return a if sg >= 0 else self.const(0)
        if name == "minimum" and len(args) == 2:
            for a, b in (args, args[::-1]):
                if b.is_zero():
                    sg = self.evident_sign(a)
                    if sg is not None:
                        return a if sg <= 0 else self.const(0)
        if name == "copysign" and len(args) == 2:
            sg = self._strictly_signed(args[1])
            if sg is not None:
                r = self.fn("absolute", [args[0]])
                return r if sg > 0 else -r
        if name == "absolute" and len(args) == 1:
            a = args[0]
            sg = self.evident_sign(a)
            if sg is not None:
                return a if sg >= 0 else -a
            # |arccos(u) - pi| = pi - arccos(u)
            pi = self.atom_ids.get(("libattr", "pi"))
            if pi is not None and a.is_poly() and len(a.n) == 2:
                for flip in (1, -1):
                    if a.n.get(((pi, 1),)) == -flip:
                        rest = [(m, c) for m, c in a.n.items() if m != ((pi, 1),)]
                        (m, c), = rest
                        if c == flip and len(m) == 1 and m[0][1] == 1 and self.atom_desc[m[0][0]][:2] == ("fn", "arccos"):
                            return a if flip == -1 else -a
        return None

    def _coef_atom(self, a: "R"):
        """(coefficient, atom id) if a == c * atom with a rational c, else None"""
        if a.d == P_ONE and len(a.n) == 1:
            (m, c), = a.n.items()
            if len(m) == 1 and m[0][1] == 1:
                return c, m[0][0]
        return None

    def _inverse_rules(self, name, a: "R"):
        """f(c * g(u)) for inverse pairs, on the documented domains (theta in [0, pi], representable operands):
        cos/sin/tan of arccos, arctan, arctan2; sinh/cosh/exp of arcsinh; exp of log; tan(arccos(u)/2);
        |m| = m for a monomial of non-negative atoms; cos/sin of an angle wrapped by (a + pi) % (2 pi) - pi."""
        if name == "absolute":
            if a.d == P_ONE and len(a.n) == 1:
                (m, c), = a.n.items()
                if m and all(self._nonneg_atom(x) or y % 2 == 0 for x, y in m):
                    return R(self, {m: abs(c)})
            return None
        if name in ("cos", "sin") and a.d == P_ONE and len(a.n) == 2:
            # (w % (2 pi)) - pi  with w = b + pi  ->  same cos/sin as b
            pi = self.atom_ids.get(("libattr", "pi"))
            if pi is not None and a.n.get(((pi, 1),)) == -1:
                rest = {m: c for m, c in a.n.items() if m != ((pi, 1),)}
                (m, c), = rest.items()
                if c == 1 and len(m) == 1 and m[0][1] == 1 and self.atom_desc[m[0][0]][0] == "op%":
                    wk, mk = self.atom_desc[m[0][0]][1:]
                    w = self.mod_args.get(m[0][0])
                    if w is not None:
                        num, mod = w
                        two_pi = R(self, {((pi, 1),): Fraction(2)})
                        if mod.key() == two_pi.key():
                            b = num - R(self, {((pi, 1),): ONE})
                            return self.fn(name, [b])
        ca = self._coef_atom(a)
        if ca is None:
            return None
        c, i = ca
        d = self.atom_desc[i]
        if d[0] != "fn" or i not in self.atom_args:
            return None
        g = d[1]
        u = self.atom_args[i][0]
        one = self.const(1)
        sgn = 1 if c > 0 else -1
        if abs(c) == 1:
            if g == "arccos":
                s = self.sqrt(one - u * u)
                if name == "cos":
                    return u
                if name == "sin":
                    return s if sgn > 0 else -s
                if name == "tan":
                    return (s / u) if sgn > 0 else -(s / u)
            if g == "arctan":
                h = self.sqrt(one + u * u)
                if name == "cos":
                    return one / h
                if name == "sin":
                    return (u / h) if sgn > 0 else -(u / h)
                if name == "tan":
                    return u if sgn > 0 else -u
            if g == "arctan2" and name == "tan":
                y, x = self.atom_args[i]
                return (y / x) if sgn > 0 else -(y / x)
            if g == "arcsinh":
                h = self.sqrt(one + u * u)
                if name == "sinh":
                    return u if sgn > 0 else -u
                if name == "cosh":
                    return h
                if name == "exp":
                    return (h + u) if sgn > 0 else (h - u)
            if g == "log" and name == "exp":
                return u if sgn > 0 else one / u
            if g == "log" and name in ("sinh", "cosh"):
                half = self.const(Fraction(1, 2))
                if name == "cosh":
                    return (u + one / u) * half
                r = (u - one / u) * half
                return r if sgn > 0 else -r
        if abs(c) == Fraction(1, 2) and g == "arccos" and name == "tan":
            s = self.sqrt(one - u * u)
            r = s / (one + u)
            return r if sgn > 0 else -r
        return None

    def _sq_red(self, kind, a: "R"):
        """reduction entry for atoms whose square is a^2: (kind, a^2 as poly | None, inverse monomial | None)"""
        if not a.is_poly():
            return (kind, None, None)
        sq = self.p_mul(a.n, a.n)
        inv = None
        if len(sq) == 1:
            (m, cf), = sq.items()
            inv = (tuple((x, -y) for x, y in m), ONE / cf)
        return (kind, sq, inv)

    def abs_atom(self, i) -> "R":
        """|atom i| as a ring value: the atom itself when it is known non-negative"""
        d = self.atom_desc[i]
        if i in self.positive or (d[0] == "fn" and d[1] in ("absolute", "sqrt", "exp", "cosh")):
            return R(self, {((i, 1),): ONE})
        return self.fn("absolute", [R(self, {((i, 1),): ONE})])

    def sqrt(self, a: R):
        if a.is_const():
            c = a.const()
            if c >= 0:
                rn, rd = math.isqrt(c.numerator), math.isqrt(c.denominator)
                if rn * rn == c.numerator and rd * rd == c.denominator:
                    return self.const(Fraction(rn, rd))
        if "inverse_trig" in self.rules and not a.is_poly():
            # sqrt(n/d) = sqrt(n)/sqrt(d) on the domain n >= 0, d > 0
            return self.sqrt(R(self, a.n)) / self.sqrt(R(self, a.d))
        rep = a.n if a.is_poly() else None
        inv = None
        if rep is not None and len(rep) == 1:
            (m, c), = rep.items()
            inv = (tuple((x, -y) for x, y in m), ONE / c)
        if rep is not None and len(rep) == 1:
            # sqrt(c * prod a_i^(2k_i)) -> sqrt(c) * prod |a_i|^(k_i)      (sqrt(e^2) = |e|, unconditional)
            (m, cf), = rep.items()
            if m and all(y % 2 == 0 for _, y in m) and cf > 0:
                rn, rd = math.isqrt(cf.numerator), math.isqrt(cf.denominator)
                if rn * rn == cf.numerator and rd * rd == cf.denominator:
                    out = self.const(Fraction(rn, rd))
                    for x, y in m:
                        out = out * self.abs_atom(x).powi(y // 2)
                    return out
        if ("sqrt_pos" in self.rules or "inverse_trig" in self.rules) and rep is not None and len(rep) > 1:
            # common even power of positive atoms: sqrt(k^2 e) -> k sqrt(e)
            pos_atoms = {x for m in rep for x, _ in m if self._nonneg_atom(x)}
            common = {}
            for x in pos_atoms:
                mn = min(dict(m).get(x, 0) for m in rep)
                ev = mn - (mn % 2)
                if ev:
                    common[x] = ev
            if common:
                out_m = tuple(sorted((x, y // 2) for x, y in common.items()))
                div_m = tuple(sorted((x, -y) for x, y in common.items()))
                inner = R(self, self.p_mul(rep, {div_m: ONE}))
                return R(self, {out_m: ONE}) * self.sqrt(inner)
        return self.atom_R(("fn", "sqrt", (a.key(),), ()), ("sqrt", rep, inv), [a])

    # -- IR -> ring ----------------------------------------------------------------------
    def of(self, n: ir.Node) -> R:
        r = self.memo.get(n.id)
        if r is None:
            r = self._of(n)
            self.memo[n.id] = r
        return r

    def _of(self, n: ir.Node) -> R:
        k = n.kind
        if k == "param":
            return self.param(n.a[0])
        if k == "sym":
            return self.atom_R(("sym", n.a[0]))
        if k == "const":
            t, v = n.a
            if t == "int":
                return self.const(v)
            if t == "float" and not isinstance(v, str):
                return self.const(Fraction(v))
            return self.atom_R(("const", t, v))
        if k == "neg":
            return -self.of(n.a[0])
        if k == "libattr":
            return self.atom_R(("libattr", n.a[0]))
        if k == "op":
            o, x, y = n.a
            if o in "+-*/" and len(o) == 1:
                a, b = self.of(x), self.of(y)
                if o == "+":
                    return a + b
                if o == "-":
                    return a - b
                if o == "*":
                    return a * b
                if b.is_zero():
                    return self.atom_R(("divzero", a.key()))
                return a / b
            if o == "**":
                a, b = self.of(x), self.of(y)
                if b.is_const():
                    c = b.const()
                    if c.denominator == 1 and abs(c) <= 64:
                        if c < 0 and a.is_zero():
                            return self.atom_R(("divzero", a.key()))
                        return a.powi(int(c))
                    if c.denominator == 2 and abs(c) <= 16:
                        if c < 0 and a.is_zero():
                            return self.atom_R(("divzero", a.key()))
                        return self.sqrt(a).powi(int(c * 2))
                return self.atom_R(("pow", a.key(), b.key()))
            a, b = self.of(x), self.of(y)
            if o in "&|":
                return self.atom_R(("bool" + o, *sorted([a.key(), b.key()])))
            r = self.atom_R(("op" + o, a.key(), b.key()))
            if o == "%":
                self.mod_args[self.single_atom(r)] = (a, b)
            return r
        if k == "cmp":
            o, x, y = n.a
            a, b = self.of(x), self.of(y)
            if o in ("==", "!="):
                return self.atom_R(("cmp" + o, *sorted([a.key(), b.key()])))
            if o in (">", ">="):
                o = {">": "<", ">=": "<="}[o]
                a, b = b, a
            return self.atom_R(("cmp" + o, a.key(), b.key()))
        if k == "not":
            return self.atom_R(("not", self.of(n.a[0]).key()))
        if k == "lib":
            name, args, kw = n.a
            return self.fn(name, [self.of(x) for x in args], [(kk, self.of(v)) for kk, v in kw])
        if k == "pyobj":
            o = ir.obj_of(n)
            return self.atom_R(("pyobj", getattr(o, "__module__", ""), getattr(o, "__qualname__", repr(o))))
        if k == "tuple":
            raise AnalysisError("tuple value where a scalar was expected")
        raise AnalysisError(f"nf: unknown node kind {k}")

    def keys_of(self, n: ir.Node):
        return tuple(self.of(x).key() for x in ir.outputs(n))

    # -- rendering ---------------------------------------------------------------------
    def show_atom(self, i, depth=0):
        d = self.atom_desc[i]
        if d[0] in ("param", "sym"):
            return str(d[1])
        if d[0] == "libattr":
            return d[1]
        if d[0] == "fn":
            return f"{d[1]}#{i}"
        return f"{d[0]}#{i}"

    def show_poly(self, p, limit=8):
        if not p:
            return "0"
        terms = []
        for m, c in sorted(p.items())[:limit]:
            s = "*".join(self.show_atom(a) + (f"^{e}" if e != 1 else "") for a, e in m)
            if not s:
                terms.append(str(c))
            elif c == 1:
                terms.append(s)
            else:
                terms.append(f"{c}*{s}")
        if len(p) > limit:
            terms.append(f"… ({len(p)} terms)")
        return " + ".join(terms)

    def atom_defs(self, p, depth=2, seen=None):
        """definitions of the function atoms occurring in polynomial p (debugging / witness text)"""
        seen = {} if seen is None else seen
        for m in p:
            for a, _ in m:
                if a in seen or a not in self.atom_args:
                    continue
                args = self.atom_args[a]
                seen[a] = f"{self.show_atom(a)} = {self.atom_desc[a][1]}({', '.join(self.show(x) for x in args)})"
                if depth > 0:
                    for x in args:
                        self.atom_defs(x.n, depth - 1, seen)
                        if x.d is not P_ONE:
                            self.atom_defs(x.d, depth - 1, seen)
        return seen

    def show(self, r: R):
        if r.is_poly():
            return self.show_poly(r.n)
        return f"({self.show_poly(r.n)}) / ({self.show_poly(r.d)})"
