"""Summaries of the object-like backends (object.py, sympy.py) obtained with the abstract interpreter."""
from __future__ import annotations

import ast

from .core import AnalysisError
from .loader import unparse
from .peval import FuncVal, Inst, Interp, Opaque, PyRaise, World

DOC_SYN = {"px": "x", "py": "y", "pt": "rho", "pz": "z", "E": "t", "e": "t", "energy": "t", "M": "tau", "m": "tau", "mass": "tau"}
GROUP = {"x": "azimuthal", "y": "azimuthal", "rho": "azimuthal", "phi": "azimuthal",
         "z": "longitudinal", "theta": "longitudinal", "eta": "longitudinal", "t": "temporal", "tau": "temporal"}
COORD_CLASS = {  # generic coordinate -> (class suffix, field names in order)
    "x": ("AzimuthalXXXXY", ("x", "y")), "y": ("AzimuthalXXXXY", ("x", "y")),
    "rho": ("AzimuthalXXXRhoPhi", ("rho", "phi")), "phi": ("AzimuthalXXXRhoPhi", ("rho", "phi")),
    "z": ("LongitudinalXXXZ", ("z",)), "theta": ("LongitudinalXXXTheta", ("theta",)), "eta": ("LongitudinalXXXEta", ("eta",)),
    "t": ("TemporalXXXT", ("t",)), "tau": ("TemporalXXXTau", ("tau",)),
}
ACCESSOR_MODULE = {"x": "planar", "y": "planar", "rho": "planar", "phi": "planar", "z": "spatial", "theta": "spatial",
                   "eta": "spatial", "t": "lorentz", "tau": "lorentz"}


def setters_of(world: World, modname: str):
    """[(class name, property name, FunctionDef)] for every @<name>.setter in the module's classes"""
    mf = world.mods[modname]
    out = []
    for cname, cnode in mf.classes.items():
        for st in cnode.body:
            if isinstance(st, ast.FunctionDef):
                for d in st.decorator_list:
                    s = unparse(d)
                    if s.endswith(".setter"):
                        out.append((cname, s[: -len(".setter")], st))
    return out


def run_setter(world: World, modname: str, cname: str, prop: str, fn: ast.FunctionDef):
    """interpret the setter on an abstract self; returns (stores, error) where stores = [(slot, value)]"""
    I = Interp(world)
    cls = world.classes[cname]
    self = Inst(cls, {"__name__": "self"}, origin="abstract")
    v = Opaque("v", "real")
    try:
        I.call_function(FuncVal(fn, modname, bound=self, owner=cls), [v], {})
    except PyRaise as e:
        return None, f"raises {e.exc}: {e.msg[:60]}"
    stores = [(ev[2], ev[3]) for ev in I.trace if ev[0] == "setattr" and ev[1] is self]
    foreign = [ev for ev in I.trace if ev[0] in ("setattr-foreign", "setitem-opaque", "setitem-inst")
               or (ev[0] == "setattr" and ev[1] is not self and getattr(ev[1], "origin", None) != "constructed")]
    return (stores, foreign), None


def expected_store(prop: str, kind: str):
    """kind: 'Object' or 'Sympy' -> (slot, class name, {field: 'v' | accessor module path})"""
    g = DOC_SYN.get(prop, prop)
    if g not in COORD_CLASS:
        return None
    cls, fields = COORD_CLASS[g]
    want = {}
    for f in fields:
        if f == g:
            want[f] = "v"
        else:
            want[f] = f"vector._compute.{ACCESSOR_MODULE[f]}.{f}.dispatch"
    return GROUP[g], cls.replace("XXX", kind), want


def describe_value(val, self_name="self"):
    """Inst of a coordinate class -> (class name, {field: 'v' | external call name | repr})"""
    if not isinstance(val, Inst):
        return None, repr(val)
    out = {}
    for k, v in val.attrs.items():
        if isinstance(v, Opaque):
            if v.tag == "v":
                out[k] = "v"
            elif isinstance(v.tag, tuple) and v.tag and v.tag[0] == "extcall":
                args = v.tag[2]
                ok = len(args) == 1 and isinstance(args[0], Inst) and args[0].attrs.get("__name__") == self_name and not v.tag[3]
                out[k] = v.tag[1] if ok else f"{v.tag[1]}(<unexpected arguments>)"
            else:
                out[k] = repr(v)
        else:
            out[k] = repr(v)
    return val.cls.name, out
