"""E6 — a small abstract interpreter ("partial evaluator") for the method/backend layer.

It interprets function *syntax trees* of the repository over a domain in which table
constants, key sets, class references, None-ness and container shapes are concrete while
coordinate values are opaque tokens.  Nothing of the repository is executed: classes are
``ClassVal`` records built from the AST class table, objects are ``Inst`` records, and
calls are interpreted by walking the callee's AST.  A condition that depends on an opaque
value raises ``Undecided`` (an analysis error), never a guess.
"""
from __future__ import annotations

import ast
import itertools
from pathlib import Path

from .core import AnalysisError, repo_root
from .loader import ModuleFacts, facts, unparse

BACKEND_FILES = {
    "vector._methods": "src/vector/_methods.py",
    "vector.backends.object": "src/vector/backends/object.py",
    "vector.backends.numpy": "src/vector/backends/numpy.py",
    "vector.backends.awkward": "src/vector/backends/awkward.py",
    "vector.backends.sympy": "src/vector/backends/sympy.py",
    "vector.backends.awkward_constructors": "src/vector/backends/awkward_constructors.py",
    "vector": "src/vector/__init__.py",
    "vector._lib": "src/vector/_lib.py",
}


class Undecided(AnalysisError):
    pass


class PyRaise(Exception):
    """a Python exception raised by the interpreted code"""

    def __init__(self, exc, msg="", where=None):
        super().__init__(f"{exc}: {msg}")
        self.exc = exc
        self.msg = msg
        self.where = where


class Opaque:
    """an unknown value; ``kind`` gives its abstract type ('real', 'bool', 'str', 'array', 'any', ...)"""
    __slots__ = ("tag", "kind")

    def __init__(self, tag, kind="any"):
        self.tag = tag
        self.kind = kind

    def __repr__(self):
        return f"<{self.tag}>"

    def __hash__(self):
        return hash(("Opaque", self.tag))

    def __eq__(self, o):
        return isinstance(o, Opaque) and o.tag == self.tag


class External:
    """a name from outside the repository (numpy.float64, numbers.Real, typing.Any ...)"""
    __slots__ = ("name",)

    def __init__(self, name):
        self.name = name

    def __repr__(self):
        return f"ext:{self.name}"

    def __hash__(self):
        return hash(("External", self.name))

    def __eq__(self, o):
        return isinstance(o, External) and o.name == self.name


class ClassVal:
    __slots__ = ("name", "module", "node", "world")

    def __init__(self, name, module, node, world):
        self.name = name
        self.module = module
        self.node = node
        self.world = world

    def __repr__(self):
        return f"class:{self.name}"

    def __hash__(self):
        return hash(("ClassVal", self.name))

    def __eq__(self, o):
        return isinstance(o, ClassVal) and o.name == self.name


class Inst:
    """an object created by the interpreted code (or an abstract operand declared by the analysis)"""

    def __init__(self, cls: ClassVal, attrs=None, origin=None):
        self.cls = cls
        self.attrs = attrs if attrs is not None else {}
        self.origin = origin

    def __repr__(self):
        inner = ", ".join(f"{k}={v!r}" for k, v in self.attrs.items())
        return f"{self.cls.name}({inner})"


class FuncVal:
    __slots__ = ("node", "module", "bound", "owner", "name", "closure")

    def __init__(self, node, module, bound=None, owner=None, closure=None):
        self.node = node
        self.module = module
        self.bound = bound
        self.owner = owner
        self.closure = closure  # the enclosing function's environment (by reference) for a nested def
        self.name = node.name if hasattr(node, "name") else "<lambda>"

    def __repr__(self):
        return f"func:{self.name}"


class ModuleVal:
    __slots__ = ("name",)

    def __init__(self, name):
        self.name = name

    def __repr__(self):
        return f"module:{self.name}"


_LOCALS_CACHE: dict = {}


def _local_names(fn) -> frozenset:
    r = _LOCALS_CACHE.get(id(fn))
    if r is None:
        names = set()
        for sub in ast.walk(fn):
            if isinstance(sub, ast.Name) and isinstance(sub.ctx, ast.Store):
                names.add(sub.id)
            elif isinstance(sub, (ast.FunctionDef, ast.Lambda)) and sub is not fn:
                pass
        r = frozenset(names)
        _LOCALS_CACHE[id(fn)] = r
    return r


ARRAYLIKE = {"ndarray", "akarray", "array", "arraylike"}
EXT_KINDS = {
    "akarray": {"awkward.Array", "awkward.highlevel.Array", "ak.Array"},
    "akrecord": {"awkward.Record", "awkward.highlevel.Record", "ak.Record"},
    "ndarray": {"numpy.ndarray"},
    "npvoid": {"numpy.void"},
    "sympyexpr": {"sympy.Expr", "sympy.Basic", "sympy.Symbol"},
}


# the part of NumPy's scalar type hierarchy the backends test against (numpy.timedelta64 IS a signedinteger)
_NUM = ["numpy.number", "numpy.generic"]
NUMPY_SCALAR_MRO = {
    **{f"numpy.int{b}": ["numpy.signedinteger", "numpy.integer", *_NUM] for b in (8, 16, 32, 64)},
    **{f"numpy.uint{b}": ["numpy.unsignedinteger", "numpy.integer", *_NUM] for b in (8, 16, 32, 64)},
    **{f"numpy.float{b}": ["numpy.floating", "numpy.inexact", *_NUM] for b in (16, 32, 64)},
    "numpy.complex128": ["numpy.complexfloating", "numpy.inexact", *_NUM],
    "numpy.bool_": ["numpy.generic"],
    "numpy.timedelta64": ["numpy.signedinteger", "numpy.integer", *_NUM],
    "numpy.datetime64": ["numpy.generic"],
    "numpy.str_": ["numpy.character", "numpy.flexible", "numpy.generic"],
    "numpy.object_": ["numpy.generic"],
}
EXT_KINDS_EXTRA = {
    "ak_arraytype": {"awkward.types.ArrayType"}, "ak_listtype": {"awkward.types.ListType"}, "ak_regulartype": {"awkward.types.RegularType"},
    "ak_optiontype": {"awkward.types.OptionType"}, "ak_recordtype": {"awkward.types.RecordType"}, "ak_numpytype": {"awkward.types.NumpyType"},
}
EXT_KINDS.update(EXT_KINDS_EXTRA)


class _Return(Exception):
    def __init__(self, value):
        self.value = value


class _Break(Exception):
    pass


class _Continue(Exception):
    pass


_SIZED = ["collections.abc.Sized", "collections.abc.Iterable", "collections.abc.Collection"]
BUILTIN_CLASSES = {"float": ["float", "numbers.Real", "object"], "int": ["int", "numbers.Real", "numbers.Integral", "object"],
                   "bool": ["bool", "int", "numbers.Real", "object"], "str": ["str", *_SIZED, "object"], "NoneType": ["NoneType", "object"],
                   "dict": ["dict", *_SIZED, "collections.abc.Mapping", "object"], "list": ["list", *_SIZED, "collections.abc.Sequence", "object"],
                   "tuple": ["tuple", *_SIZED, "collections.abc.Sequence", "object"], "type": ["type", "object"],
                   "set": ["set", *_SIZED, "object"]}
KIND_CLASS = {"real": "float", "bool": "bool", "str": "str", "int": "int", "slice": "slice", "complex": "complex"}
BUILTIN_CLASSES["slice"] = ["slice", "object"]
BUILTIN_CLASSES["complex"] = ["complex", "numbers.Complex", "numbers.Number", "object"]
# NumPy scalar VALUES (an Opaque whose kind is a key of NUMPY_SCALAR_MRO): the abstract base classes NumPy registers them with, and their Python bases
NUMPY_SCALAR_ABCS = {
    "numpy.floating": ["numbers.Real", "numbers.Complex", "numbers.Number"],
    "numpy.integer": ["numbers.Integral", "numbers.Rational", "numbers.Real", "numbers.Complex", "numbers.Number"],
    "numpy.complexfloating": ["numbers.Complex", "numbers.Number"],
}
NUMPY_SCALAR_PYBASES = {"numpy.float64": ["builtins.float", "float"], "numpy.complex128": ["builtins.complex", "complex"], "numpy.str_": ["builtins.str", "str"]}


def numpy_scalar_isa(cname: str, tname: str) -> bool:
    """issubclass(<numpy scalar type cname>, <class named tname>) for the part of the hierarchy modelled here"""
    mro = [cname, *NUMPY_SCALAR_MRO[cname]]
    if tname in mro or tname in ("object", "builtins.object"):
        return True
    if tname in NUMPY_SCALAR_PYBASES.get(cname, ()):
        return True
    return any(tname in NUMPY_SCALAR_ABCS.get(b, ()) for b in mro)


class World:
    """class table and module facts of the analysed tree"""

    def __init__(self, repo: Path | None = None):
        self.repo = repo or repo_root()
        self.mods: dict[str, ModuleFacts] = {}
        for name, rel in BACKEND_FILES.items():
            p = self.repo / rel
            if p.exists():
                self.mods[name] = facts(rel, self.repo)
        self.classes: dict[str, ClassVal] = {}
        for mname, mf in self.mods.items():
            for cname, node in mf.classes.items():
                if cname in self.classes:
                    # same class name in two backend modules: keep first, remember clash
                    continue
                self.classes[cname] = ClassVal(cname, mname, node, self)
        self._mro: dict[str, list[str]] = {}
        self._modenv: dict[str, dict] = {}
        self._late: dict[str, dict[str, ast.AST]] = {}
        for mname, mf in self.mods.items():
            for (c, a), v in mf.late_attrs.items():
                self._late.setdefault(c, {})[a] = (v, mname)

    # ---- classes -------------------------------------------------------------------
    def mro(self, cname: str) -> list[str]:
        if cname in self._mro:
            return self._mro[cname]
        cv = self.classes.get(cname)
        if cv is None:
            return [cname]
        bases = []
        for b in cv.node.bases:
            s = unparse(b)
            s = s.split("[")[0]
            bases.append(s.split(".")[-1] if s.split(".")[-1] in self.classes else s)
        seqs = [self.mro(b) for b in bases] + [list(bases)]
        res = [cname]
        seqs = [list(s) for s in seqs if s]
        while seqs:
            for s in seqs:
                cand = s[0]
                if not any(cand in t[1:] for t in seqs):
                    break
            else:
                raise AnalysisError(f"inconsistent MRO for {cname}")
            res.append(cand)
            seqs = [[x for x in s if x != cand] for s in seqs]
            seqs = [s for s in seqs if s]
        self._mro[cname] = res
        return res

    def issubclass(self, cname: str, other: str) -> bool:
        return other in self.mro(cname) or other == "object"

    def find_method(self, cname: str, meth: str, kind=None):
        for c in self.mro(cname):
            cv = self.classes.get(c)
            if cv is None:
                continue
            mf = self.mods[cv.module]
            fn = mf.method(c, meth, kind)
            if fn is not None:
                return fn, cv
        return None, None

    def class_attr(self, cname: str, attr: str):
        """(value node, module name) of a class-level attribute incl. late `X.attr = Y` assignments, through the MRO"""
        for c in self.mro(cname):
            late = self._late.get(c, {})
            if attr in late:
                return late[attr]
            cv = self.classes.get(c)
            if cv is None:
                continue
            for st in cv.node.body:
                if isinstance(st, ast.Assign):
                    for t in st.targets:
                        if isinstance(t, ast.Name) and t.id == attr:
                            return st.value, cv.module
                elif isinstance(st, ast.AnnAssign) and isinstance(st.target, ast.Name) and st.target.id == attr and st.value is not None:
                    return st.value, cv.module
        return None

    def namedtuple_fields(self, cname: str):
        """field names if the class (or a base) is a typing.NamedTuple"""
        for c in self.mro(cname):
            cv = self.classes.get(c)
            if cv is None:
                continue
            if any(unparse(b) in ("typing.NamedTuple", "NamedTuple") for b in cv.node.bases):
                return [st.target.id for st in cv.node.body if isinstance(st, ast.AnnAssign) and isinstance(st.target, ast.Name)]
        return None

    # ---- module environments ---------------------------------------------------------
    def module_env(self, mname: str) -> dict:
        env = self._modenv.get(mname)
        if env is not None:
            return env
        env = {}
        self._modenv[mname] = env
        mf = self.mods[mname]
        for st in mf.tree.body:
            self._bind_toplevel(st, env, mname)
        return env

    def _bind_toplevel(self, st, env, mname):
        mf = self.mods[mname]
        if isinstance(st, ast.Import):
            for al in st.names:
                top = (al.asname or al.name.split(".")[0])
                env[top] = ModuleVal(al.name if al.asname else al.name.split(".")[0])
        elif isinstance(st, ast.ImportFrom):
            src = st.module or ""
            for al in st.names:
                nm = al.asname or al.name
                if src in self.mods:
                    env[nm] = ("deferred", src, al.name)
                else:
                    env[nm] = External(f"{src}.{al.name}")
        elif isinstance(st, ast.ClassDef):
            env[st.name] = self.classes.get(st.name) or ClassVal(st.name, mname, st, self)
        elif isinstance(st, ast.FunctionDef):
            if any("overload" in unparse(d) for d in st.decorator_list):
                return
            env[st.name] = FuncVal(st, mname)
        elif isinstance(st, ast.Assign) and len(st.targets) == 1 and isinstance(st.targets[0], ast.Name):
            env[st.targets[0].id] = ("lazy", st.value, mname)
        elif isinstance(st, ast.AnnAssign) and isinstance(st.target, ast.Name) and st.value is not None:
            env[st.target.id] = ("lazy", st.value, mname)
        elif isinstance(st, (ast.Try, ast.If)):
            for sub in getattr(st, "body", []) + getattr(st, "orelse", []):
                self._bind_toplevel(sub, env, mname)

    def lookup_global(self, mname: str, name: str, interp):
        env = self.module_env(mname)
        if name not in env:
            raise KeyError(name)
        v = env[name]
        if isinstance(v, tuple) and v and v[0] == "deferred":
            v = self.lookup_global(v[1], v[2], interp)
            env[name] = v
        elif isinstance(v, tuple) and v and v[0] == "lazy":
            val = interp.eval_in_module(v[1], v[2])
            env[name] = val
            v = val
        return v


BUILTINS = {}


def builtin(name):
    def deco(f):
        BUILTINS[name] = f
        return f
    return deco


class Interp:
    MAX_STEPS = 200000

    def __init__(self, world: World, ext_models=None, opaque_attrs=None):
        self.w = world
        self.opaque_attrs = dict(opaque_attrs or {})  # opaque tag -> {attribute: value} (concrete facts about an opaque operand)
        self.steps = 0
        self.trace: list = []  # notable events: stores to instance attributes, raises
        self.ext_models = dict(ext_models or {})  # external dotted name -> callable(interp, args, kwargs)

    # -- entry points --------------------------------------------------------------------
    def eval_in_module(self, node, mname):
        return self.ev(node, {}, mname)

    def call_function(self, fv: FuncVal, args, kwargs):
        node = fv.node
        a = node.args
        env = {}
        if fv.closure is not None:
            # free variables of a nested def read the enclosing environment as it is at call time; locals of the inner function shadow them
            env = {k: v for k, v in fv.closure.items() if not k.startswith("__")}
        params = [x.arg for x in a.posonlyargs + a.args]
        pos = list(args)
        if fv.bound is not None:
            pos = [fv.bound] + pos
        if len(pos) > len(params) and a.vararg is None:
            raise PyRaise("TypeError", f"{fv.name}() takes {len(params)} positional arguments but {len(pos)} were given")
        for p, v in zip(params, pos):
            env[p] = v
        if a.vararg is not None:
            env[a.vararg.arg] = tuple(pos[len(params):])
        kw = dict(kwargs)
        defaults = a.defaults
        dparams = params[len(params) - len(defaults):] if defaults else []
        for p in params[len(pos):]:
            if p in kw:
                env[p] = kw.pop(p)
            elif p in dparams:
                env[p] = self.ev(defaults[dparams.index(p)], {}, fv.module)
            else:
                raise PyRaise("TypeError", f"{fv.name}() missing required argument '{p}'")
        for p, d in zip(a.kwonlyargs, a.kw_defaults):
            if p.arg in kw:
                env[p.arg] = kw.pop(p.arg)
            elif d is not None:
                env[p.arg] = self.ev(d, {}, fv.module)
            else:
                raise PyRaise("TypeError", f"{fv.name}() missing keyword-only argument '{p.arg}'")
        if a.kwarg is not None:
            env[a.kwarg.arg] = kw
        elif kw:
            raise PyRaise("TypeError", f"{fv.name}() got an unexpected keyword argument '{next(iter(kw))}'")
        if isinstance(node, ast.Lambda):
            return self.ev(node.body, env, fv.module)
        if fv.owner is not None:
            env["__class__"] = fv.owner
            env["__self__"] = fv.bound
        env["__locals__"] = _local_names(node)
        try:
            self.block(node.body, env, fv.module)
        except _Return as r:
            return r.value
        return None

    # -- statements ------------------------------------------------------------------------
    def block(self, body, env, mod):
        for st in body:
            self.stmt(st, env, mod)

    def stmt(self, st, env, mod):
        self.steps += 1
        if self.steps > self.MAX_STEPS:
            raise Undecided("interpretation step bound exceeded")
        if isinstance(st, ast.Expr):
            if isinstance(st.value, ast.Constant):
                return
            self.ev(st.value, env, mod)
        elif isinstance(st, ast.Assign):
            v = self.ev(st.value, env, mod)
            for t in st.targets:
                self.assign(t, v, env, mod)
        elif isinstance(st, ast.AnnAssign):
            if st.value is not None:
                self.assign(st.target, self.ev(st.value, env, mod), env, mod)
        elif isinstance(st, ast.AugAssign):
            cur = self.ev(st.target, env, mod)
            v = self.binop(st.op, cur, self.ev(st.value, env, mod))
            self.assign(st.target, v, env, mod)
        elif isinstance(st, ast.If):
            if self.truth(self.ev(st.test, env, mod), st.test):
                self.block(st.body, env, mod)
            else:
                self.block(st.orelse, env, mod)
        elif isinstance(st, ast.For):
            src = self.ev(st.iter, env, mod)
            if isinstance(src, list):
                # Python iterates a list by index over the live object: an element removed or inserted by the body shifts what comes next
                def live(lst=src):
                    i = 0
                    while i < len(lst):
                        yield lst[i]
                        i += 1
                it = live()
            else:
                it = self.iterate(src, st.iter)
            broke = False
            for item in it:
                self.assign(st.target, item, env, mod)
                try:
                    self.block(st.body, env, mod)
                except _Break:
                    broke = True
                    break
                except _Continue:
                    continue
            if not broke:
                self.block(st.orelse, env, mod)
        elif isinstance(st, ast.While):
            n = 0
            while self.truth(self.ev(st.test, env, mod), st.test):
                n += 1
                if n > 1000:
                    raise Undecided("while loop bound")
                try:
                    self.block(st.body, env, mod)
                except _Break:
                    break
                except _Continue:
                    continue
        elif isinstance(st, ast.Return):
            raise _Return(self.ev(st.value, env, mod) if st.value is not None else None)
        elif isinstance(st, ast.Raise):
            exc = "Exception"
            msg = ""
            if st.exc is not None:
                if isinstance(st.exc, ast.Call):
                    exc = unparse(st.exc.func)
                    if st.exc.args:
                        try:
                            m = self.ev(st.exc.args[0], env, mod)
                            msg = m if isinstance(m, str) else repr(m)
                        except (AnalysisError, PyRaise):
                            msg = unparse(st.exc.args[0])[:80]
                else:
                    exc = unparse(st.exc)
            raise PyRaise(exc, msg, getattr(st, "lineno", None))
        elif isinstance(st, ast.Assert):
            if not self.truth(self.ev(st.test, env, mod), st.test):
                raise PyRaise("AssertionError", unparse(st.test), st.lineno)
        elif isinstance(st, ast.Pass):
            return
        elif isinstance(st, ast.Break):
            raise _Break()
        elif isinstance(st, ast.Continue):
            raise _Continue()
        elif isinstance(st, ast.ImportFrom):
            src = st.module or ""
            for al in st.names:
                nm = al.asname or al.name
                if src in self.w.mods:
                    try:
                        env[nm] = self.w.lookup_global(src, al.name, self)
                    except KeyError:
                        env[nm] = External(f"{src}.{al.name}")
                else:
                    env[nm] = External(f"{src}.{al.name}")
        elif isinstance(st, ast.Import):
            for al in st.names:
                env[al.asname or al.name.split(".")[0]] = ModuleVal(al.name if al.asname else al.name.split(".")[0])
        elif isinstance(st, ast.Delete):
            for t in st.targets:
                if isinstance(t, ast.Subscript):
                    c = self.ev(t.value, env, mod)
                    k = self.ev(t.slice, env, mod)
                    if isinstance(c, dict):
                        if k not in c:
                            raise PyRaise("KeyError", repr(k))
                        del c[k]
                        continue
                raise Undecided(f"del {unparse(t)}")
        elif isinstance(st, ast.Try):
            try:
                self.block(st.body, env, mod)
            except PyRaise as e:
                for h in st.handlers:
                    names = []
                    if h.type is None:
                        names = [e.exc]
                    elif isinstance(h.type, ast.Tuple):
                        names = [unparse(x) for x in h.type.elts]
                    else:
                        names = [unparse(h.type)]
                    if e.exc in names or "Exception" in names or "BaseException" in names:
                        if h.name:
                            env[h.name] = Opaque(("exc", e.exc))
                        self.block(h.body, env, mod)
                        break
                else:
                    raise
            else:
                self.block(st.orelse, env, mod)
            finally:
                pass
            self.block(st.finalbody, env, mod)
        elif isinstance(st, ast.With):
            suppressed = []
            for item in st.items:
                v = self.ev(item.context_expr, env, mod)
                if isinstance(v, Opaque) and isinstance(v.tag, tuple) and v.tag[0] == "extcall" and v.tag[1].endswith("suppress"):
                    suppressed.extend(a.name.split(".")[-1] for a in v.tag[2] if isinstance(a, External))
                if item.optional_vars is not None:
                    self.assign(item.optional_vars, v, env, mod)
            if suppressed:
                try:
                    self.block(st.body, env, mod)
                except PyRaise as e:
                    if e.exc not in suppressed:
                        raise
            else:
                self.block(st.body, env, mod)
        elif isinstance(st, (ast.Global, ast.Nonlocal)):
            raise Undecided(f"global/nonlocal in interpreted code: {unparse(st)}")
        elif isinstance(st, ast.FunctionDef):
            env[st.name] = FuncVal(st, mod, closure=env)
        else:
            raise Undecided(f"statement {type(st).__name__}: {unparse(st)[:60]}")

    def assign(self, t, v, env, mod):
        if isinstance(t, ast.Name):
            env[t.id] = v
        elif isinstance(t, (ast.Tuple, ast.List)):
            items = list(self.iterate(v, t))
            star = [i for i, e in enumerate(t.elts) if isinstance(e, ast.Starred)]
            if star:
                i = star[0]
                n_after = len(t.elts) - i - 1
                if len(items) < len(t.elts) - 1:
                    raise PyRaise("ValueError", "not enough values to unpack")
                for e, x in zip(t.elts[:i], items[:i]):
                    self.assign(e, x, env, mod)
                self.assign(t.elts[i].value, list(items[i:len(items) - n_after]), env, mod)
                for e, x in zip(t.elts[i + 1:], items[len(items) - n_after:]):
                    self.assign(e, x, env, mod)
            else:
                if len(items) != len(t.elts):
                    raise PyRaise("ValueError", f"cannot unpack {len(items)} values into {len(t.elts)}")
                for e, x in zip(t.elts, items):
                    self.assign(e, x, env, mod)
        elif isinstance(t, ast.Subscript):
            c = self.ev(t.value, env, mod)
            k = self.ev(t.slice, env, mod)
            if isinstance(c, dict):
                self.trace.append(("setitem", id(c), k, v, getattr(t, "lineno", None)))
                c[k] = v
            elif isinstance(c, list) and isinstance(k, int):
                c[k] = v
            elif isinstance(c, Inst):
                c.attrs.setdefault("__items__", {})[k if not isinstance(k, (list, dict)) else repr(k)] = v
                self.trace.append(("setitem-inst", c, k, v, getattr(t, "lineno", None)))
            elif isinstance(c, Opaque):
                self.trace.append(("setitem-opaque", c, k, v, getattr(t, "lineno", None)))
            else:
                raise Undecided(f"subscript store into {c!r}")
        elif isinstance(t, ast.Attribute):
            o = self.ev(t.value, env, mod)
            if isinstance(o, Inst):
                self.trace.append(("setattr", o, t.attr, v, getattr(t, "lineno", None)))
                # property setter?
                fn, cv = self.w.find_method(o.cls.name, t.attr, "setter")
                if fn is not None:
                    self.call_function(FuncVal(fn, cv.module, bound=o), [v], {})
                else:
                    o.attrs[t.attr] = v
            elif isinstance(o, (Opaque, ClassVal, ModuleVal)):
                self.trace.append(("setattr-foreign", o, t.attr, v, getattr(t, "lineno", None)))
            else:
                raise Undecided(f"attribute store on {o!r}")
        else:
            raise Undecided(f"assignment target {unparse(t)}")

    # -- helpers --------------------------------------------------------------------------
    OPAQUE_TRUTH = None  # analysis policy: None = undecided; True / False = assume every opaque *value* is truthy / falsy (callers run both and compare)

    def truth(self, v, node=None):
        if isinstance(v, (Opaque,)):
            if Interp.OPAQUE_TRUTH is not None and v.kind in ("real", "int", "array", "ndarray", None):
                return Interp.OPAQUE_TRUTH
            raise Undecided(f"condition depends on an opaque value: {unparse(node) if node is not None else v}")
        if isinstance(v, (Inst, ClassVal, FuncVal, External, ModuleVal)):
            return True
        return bool(v)

    def iterate(self, v, node=None):
        if isinstance(v, dict):
            return list(v.keys())
        if isinstance(v, (list, tuple, set, frozenset, range, str)):
            return list(v)
        if isinstance(v, type({}.items())) or isinstance(v, type({}.keys())) or isinstance(v, type({}.values())):
            return list(v)
        if isinstance(v, (itertools.chain, zip, map, filter, enumerate)) or hasattr(v, "__next__"):
            return list(v)
        if isinstance(v, Inst):
            nt = self.w.namedtuple_fields(v.cls.name)
            if nt is not None:
                return [v.attrs[f] for f in nt]
        raise Undecided(f"cannot iterate over {v!r} ({unparse(node) if node is not None else ''})")

    def binop(self, op, a, b):
        if isinstance(a, (Opaque, External)) or isinstance(b, (Opaque, External)):
            return Opaque(("binop", type(op).__name__, a if not isinstance(a, (list, dict)) else repr(a), b if not isinstance(b, (list, dict)) else repr(b)))
        try:
            if isinstance(op, ast.Add):
                return a + b
            if isinstance(op, ast.Sub):
                return a - b
            if isinstance(op, ast.Mult):
                return a * b
            if isinstance(op, ast.Div):
                return a / b
            if isinstance(op, ast.FloorDiv):
                return a // b
            if isinstance(op, ast.Mod):
                return a % b
            if isinstance(op, ast.Pow):
                return a ** b
            if isinstance(op, ast.BitOr):
                return a | b
            if isinstance(op, ast.BitAnd):
                return a & b
        except TypeError as e:
            raise Undecided(f"binary operation on {a!r}, {b!r}: {e}") from e
        raise Undecided(f"operator {type(op).__name__}")

    def class_name_of(self, v):
        """name of type(v) for isinstance purposes, or None when unknown"""
        if isinstance(v, Inst):
            return v.cls.name
        if isinstance(v, Opaque):
            if v.kind in NUMPY_SCALAR_MRO:
                return v.kind
            return KIND_CLASS.get(v.kind)
        if v is None:
            return "NoneType"
        if isinstance(v, bool):
            return "bool"
        if isinstance(v, int):
            return "int"
        if isinstance(v, float):
            return "float"
        if isinstance(v, str):
            return "str"
        if isinstance(v, dict):
            return "dict"
        if isinstance(v, list):
            return "list"
        if isinstance(v, tuple):
            return "tuple"
        if isinstance(v, (set, frozenset)):
            return "set"
        if isinstance(v, (ClassVal,)):
            return "type"
        return None

    def is_subclass_name(self, cname, target) -> bool:
        """target: ClassVal | External | tuple"""
        if isinstance(target, tuple):
            return any(self.is_subclass_name(cname, t) for t in target)
        if isinstance(target, ClassVal):
            tn = target.name
        elif isinstance(target, External):
            tn = target.name.split(".")[-1] if not target.name.startswith("numbers.") else target.name
            if target.name in ("builtins.type",):
                tn = "type"
        elif isinstance(target, str):
            tn = target
        else:
            raise Undecided(f"isinstance/issubclass against {target!r}")
        if cname in NUMPY_SCALAR_MRO:
            if isinstance(target, External):
                return numpy_scalar_isa(cname, target.name)
            return False  # not an instance of any repository class
        if cname in BUILTIN_CLASSES:
            return tn in BUILTIN_CLASSES[cname] or tn.split(".")[-1] in [x.split(".")[-1] for x in BUILTIN_CLASSES[cname]]
        return self.w.issubclass(cname, tn)

    # -- expressions -----------------------------------------------------------------------
    def ev(self, n, env, mod):
        m = getattr(self, "ev_" + type(n).__name__, None)
        if m is None:
            raise Undecided(f"expression {type(n).__name__}: {unparse(n)[:60]}")
        return m(n, env, mod)

    def ev_Constant(self, n, env, mod):
        return n.value

    def ev_Name(self, n, env, mod):
        if n.id in env:
            return env[n.id]
        if n.id in env.get("__locals__", ()):
            raise PyRaise("UnboundLocalError", f"local variable '{n.id}' referenced before assignment", getattr(n, "lineno", None))
        try:
            return self.w.lookup_global(mod, n.id, self)
        except KeyError:
            pass
        if n.id in BUILTINS:
            return ("builtin", n.id)
        if n.id == "__builtins__":
            return {k: ("builtin", k) for k in BUILTINS}
        if n.id in ("float", "int", "bool", "str", "dict", "list", "tuple", "type", "set", "object"):
            return External(f"builtins.{n.id}")
        if n.id in ("TypeError", "ValueError", "AssertionError", "KeyError", "AttributeError", "NotImplementedError", "IndexError"):
            return External(f"builtins.{n.id}")
        if n.id == "NotImplemented":
            return External("builtins.NotImplemented")
        raise Undecided(f"unresolved name {n.id} in {mod}")

    def ev_Tuple(self, n, env, mod):
        out = []
        for e in n.elts:
            if isinstance(e, ast.Starred):
                out.extend(self.iterate(self.ev(e.value, env, mod), e))
            else:
                out.append(self.ev(e, env, mod))
        return tuple(out)

    def ev_List(self, n, env, mod):
        return list(self.ev_Tuple(n, env, mod))

    def ev_Set(self, n, env, mod):
        return set(self.ev_Tuple(n, env, mod))

    def ev_Dict(self, n, env, mod):
        d = {}
        for k, v in zip(n.keys, n.values):
            if k is None:
                sub = self.ev(v, env, mod)
                if not isinstance(sub, dict):
                    raise Undecided("** of a non-dict in dict display")
                d.update(sub)
            else:
                d[self.ev(k, env, mod)] = self.ev(v, env, mod)
        return d

    def ev_JoinedStr(self, n, env, mod):
        parts = []
        for v in n.values:
            if isinstance(v, ast.Constant):
                parts.append(str(v.value))
            else:
                try:
                    x = self.ev(v.value, env, mod)
                except (AnalysisError, PyRaise):
                    x = Opaque("fstr")
                if isinstance(x, (str, int, float)) and not isinstance(x, bool):
                    parts.append(str(x))
                else:
                    return Opaque(("fstring", unparse(n)[:40]), "str")
        return "".join(parts)

    def ev_UnaryOp(self, n, env, mod):
        v = self.ev(n.operand, env, mod)
        if isinstance(n.op, ast.Not):
            return not self.truth(v, n.operand)
        if isinstance(v, Opaque):
            return Opaque(("unary", type(n.op).__name__, v))
        if isinstance(n.op, ast.USub):
            return -v
        if isinstance(n.op, ast.UAdd):
            return +v
        raise Undecided(f"unary {type(n.op).__name__}")

    def ev_BoolOp(self, n, env, mod):
        if isinstance(n.op, ast.And):
            v = True
            for e in n.values:
                v = self.ev(e, env, mod)
                if not self.truth(v, e):
                    return v
            return v
        v = False
        for e in n.values:
            v = self.ev(e, env, mod)
            if self.truth(v, e):
                return v
        return v

    def ev_IfExp(self, n, env, mod):
        return self.ev(n.body, env, mod) if self.truth(self.ev(n.test, env, mod), n.test) else self.ev(n.orelse, env, mod)

    def ev_BinOp(self, n, env, mod):
        return self.binop(n.op, self.ev(n.left, env, mod), self.ev(n.right, env, mod))

    def ev_Compare(self, n, env, mod):
        left = self.ev(n.left, env, mod)
        for op, rn in zip(n.ops, n.comparators):
            right = self.ev(rn, env, mod)
            r = self.compare(op, left, right, n)
            if isinstance(r, Opaque):
                if len(n.ops) == 1:
                    return r
                raise Undecided(f"chained comparison on opaque values: {unparse(n)}")
            if not r:
                return False
            left = right
        return True

    def compare(self, op, a, b, node):
        if isinstance(op, (ast.Is, ast.IsNot)):
            if a is None or b is None:
                same = a is None and b is None
                if isinstance(a, Opaque) or isinstance(b, Opaque):
                    o = a if isinstance(a, Opaque) else b
                    if o.kind in ("real", "bool", "str", "array", "notnone", "int", "arraylike", "ndarray", "akarray", "akrecord", "slice"):
                        same = False
                    else:
                        raise Undecided(f"None-ness of {o!r} in {unparse(node)}")
            elif isinstance(a, (ClassVal, External, Inst)) or isinstance(b, (ClassVal, External, Inst)):
                same = (a == b) if not isinstance(a, Inst) else a is b
            elif isinstance(a, bool) or isinstance(b, bool):
                same = a is b
            else:
                raise Undecided(f"identity comparison {unparse(node)}")
            return same if isinstance(op, ast.Is) else not same
        if isinstance(op, (ast.In, ast.NotIn)):
            if isinstance(b, Opaque):
                raise Undecided(f"membership in opaque container: {unparse(node)}")
            if isinstance(b, dict):
                r = a in b
            elif isinstance(b, str):
                if not isinstance(a, str):
                    raise Undecided(f"substring test with non-string: {unparse(node)}")
                r = a in b
            elif isinstance(b, (list, tuple, set, frozenset)) or isinstance(b, type({}.keys())):
                if isinstance(a, Opaque):
                    if isinstance(b, str) or all(isinstance(x, (str, int, float, type(None))) for x in b):
                        raise Undecided(f"membership of opaque value: {unparse(node)}")
                try:
                    r = any(self._eq(a, x) for x in b)
                except Undecided:
                    raise
            elif isinstance(b, Inst):
                raise Undecided(f"membership in instance: {unparse(node)}")
            else:
                raise Undecided(f"membership test on {b!r}")
            return r if isinstance(op, ast.In) else not r
        for o in (a, b):
            if isinstance(o, Opaque) and o.kind in ARRAYLIKE and not isinstance(op, (ast.Is, ast.IsNot, ast.In, ast.NotIn)):
                other = b if o is a else a
                if isinstance(other, (Opaque, int, float)) or other is None:
                    return Opaque(("cmp", type(op).__name__, a if isinstance(a, Opaque) else repr(a), b if isinstance(b, Opaque) else repr(b)), "arraylike")
        if isinstance(op, (ast.Eq, ast.NotEq)):
            r = self._eq(a, b)
            return r if isinstance(op, ast.Eq) else not r
        if isinstance(a, Opaque) or isinstance(b, Opaque):
            raise Undecided(f"ordering comparison on opaque value: {unparse(node)}")
        if isinstance(op, ast.Lt):
            return a < b
        if isinstance(op, ast.LtE):
            return a <= b
        if isinstance(op, ast.Gt):
            return a > b
        if isinstance(op, ast.GtE):
            return a >= b
        raise Undecided(f"comparison {type(op).__name__}")

    def _eq(self, a, b):
        if isinstance(a, Opaque) or isinstance(b, Opaque):
            if isinstance(a, Opaque) and isinstance(b, Opaque) and a == b:
                return True
            other = b if isinstance(a, Opaque) else a
            if isinstance(other, (ClassVal, External, dict, list, tuple, set)) or other is None:
                return False
            raise Undecided(f"equality on opaque values {a!r} == {b!r}")
        if isinstance(a, (list, tuple)) and isinstance(b, (list, tuple)) and type(a) is type(b):
            return len(a) == len(b) and all(self._eq(x, y) for x, y in zip(a, b))
        if isinstance(a, (set, frozenset)) and isinstance(b, (set, frozenset)):
            return a == b
        if type(a) in (list, tuple, set, dict) or type(b) in (list, tuple, set, dict):
            if type(a) is not type(b):
                return False
        return a == b

    def ev_Attribute(self, n, env, mod):
        o = self.ev(n.value, env, mod)
        return self.getattr(o, n.attr, n)

    def getattr(self, o, attr, node=None):
        if isinstance(o, ModuleVal):
            full = f"{o.name}.{attr}"
            if full in self.w.mods or any(k.startswith(full + ".") for k in self.w.mods):
                return ModuleVal(full)
            if o.name in self.w.mods:
                try:
                    return self.w.lookup_global(o.name, attr, self)
                except KeyError:
                    return External(full)
            return External(full)
        if isinstance(o, External):
            return External(f"{o.name}.{attr}")
        if isinstance(o, Inst):
            if attr in o.attrs:
                return o.attrs[attr]
            if attr == "__class__":
                return o.cls
            nt = self.w.namedtuple_fields(o.cls.name)
            fn, cv = self.w.find_method(o.cls.name, attr)
            if fn is not None:
                decos = [unparse(d) for d in fn.decorator_list]
                if "property" in decos:
                    return self.call_function(FuncVal(fn, cv.module, bound=o, owner=cv), [], {})
                if "classmethod" in decos:
                    return FuncVal(fn, cv.module, bound=o.cls, owner=cv)
                if "staticmethod" in decos:
                    return FuncVal(fn, cv.module)
                return FuncVal(fn, cv.module, bound=o, owner=cv)
            ca = self.w.class_attr(o.cls.name, attr)
            if ca is not None:
                return self.ev(ca[0], {}, ca[1])
            if o.origin == "abstract":
                return Opaque(("attr", o.attrs.get("__name__", o.cls.name), attr))
            raise PyRaise("AttributeError", f"{o.cls.name} object has no attribute {attr}")
        if isinstance(o, ClassVal):
            if attr == "__name__":
                return o.name
            if attr == "__mro__":
                return tuple(self.w.classes.get(c) or External(c) for c in self.w.mro(o.name))
            if attr == "__module__":
                return o.module
            fn, cv = self.w.find_method(o.name, attr)
            if fn is not None:
                decos = [unparse(d) for d in fn.decorator_list]
                if "classmethod" in decos:
                    return FuncVal(fn, cv.module, bound=o, owner=cv)
                return FuncVal(fn, cv.module, owner=cv)
            ca = self.w.class_attr(o.name, attr)
            if ca is not None:
                return self.ev(ca[0], {}, ca[1])
            raise PyRaise("AttributeError", f"type {o.name} has no attribute {attr}")
        if isinstance(o, SuperVal):
            b = o.bound
            cname = b.cls.name if isinstance(b, Inst) else b.name
            mro = self.w.mro(cname)
            rest = mro[mro.index(o.owner.name) + 1:] if o.owner.name in mro else []
            for c in rest:
                cv = self.w.classes.get(c)
                if cv is None:
                    continue
                fn = self.w.mods[cv.module].method(c, attr)
                if fn is not None:
                    decos = [unparse(d) for d in fn.decorator_list]
                    if "property" in decos:
                        return self.call_function(FuncVal(fn, cv.module, bound=b, owner=cv), [], {})
                    return FuncVal(fn, cv.module, bound=b, owner=cv)
            if attr in ("__init__", "__new__", "__array_finalize__", "__setstate__", "__reduce__", "__getitem__", "__setitem__"):
                return Opaque(("super", attr))
            raise PyRaise("AttributeError", f"super object has no attribute {attr}")
        if isinstance(o, Opaque):
            m = self.opaque_attrs.get(o.tag)
            if m is not None and attr in m:
                return m[attr]
            if m is not None and m.get("__closed__"):
                raise PyRaise("AttributeError", f"{o.tag} has no attribute {attr}")
            return Opaque(("attr", o.tag, attr))
        if isinstance(o, dict):
            return ("dictmethod", o, attr)
        if isinstance(o, (list, set)):
            return ("seqmethod", o, attr)
        if isinstance(o, str):
            return ("strmethod", o, attr)
        if isinstance(o, FuncVal):
            if attr == "__name__":
                return o.name
        if isinstance(o, tuple) and o and o[0] == "boundmethodname":
            pass
        raise Undecided(f"attribute {attr} of {o!r}")

    def ev_Subscript(self, n, env, mod):
        c = self.ev(n.value, env, mod)
        if isinstance(n.slice, ast.Slice):
            lo = self.ev(n.slice.lower, env, mod) if n.slice.lower else None
            hi = self.ev(n.slice.upper, env, mod) if n.slice.upper else None
            if isinstance(c, (list, tuple, str)):
                return c[lo:hi]
            return Opaque(("slice", c if isinstance(c, Opaque) else repr(c), lo, hi))
        k = self.ev(n.slice, env, mod)
        if isinstance(c, dict):
            if isinstance(k, Opaque):
                raise Undecided(f"dict lookup with opaque key: {unparse(n)}")
            if k not in c:
                raise PyRaise("KeyError", repr(k), n.lineno)
            return c[k]
        if isinstance(c, (list, tuple, str)):
            if isinstance(k, Opaque):
                raise Undecided(f"index with opaque value: {unparse(n)}")
            try:
                return c[k]
            except IndexError:
                raise PyRaise("IndexError", f"{unparse(n)}") from None
        if isinstance(c, Opaque):
            return Opaque(("item", c.tag, k if not isinstance(k, (list, dict)) else repr(k)))
        if isinstance(c, Inst):
            items = c.attrs.get("__items__")
            if items is not None and not isinstance(k, Opaque) and k in items:
                return items[k]
            nt = self.w.namedtuple_fields(c.cls.name)
            if nt is not None and isinstance(k, int):
                return c.attrs[nt[k]]
            fn, cv = self.w.find_method(c.cls.name, "__getitem__")
            if c.origin == "abstract" or fn is None:
                return Opaque(("item", c.attrs.get("__name__", c.cls.name), k if not isinstance(k, (list, dict)) else repr(k)))
            return self.call_function(FuncVal(fn, cv.module, bound=c), [k], {})
        if isinstance(c, (External, ClassVal)):
            return External(f"{c!r}[{k!r}]")
        raise Undecided(f"subscript of {c!r}")

    def ev_Lambda(self, n, env, mod):
        fv = FuncVal(n, mod)
        return ("closure", fv, dict(env))

    def _comp(self, n, env, mod, gens, emit):
        if not gens:
            emit(env)
            return
        g = gens[0]
        for item in self.iterate(self.ev(g.iter, env, mod), g.iter):
            e2 = dict(env)
            self.assign(g.target, item, e2, mod)
            if all(self.truth(self.ev(c, e2, mod), c) for c in g.ifs):
                self._comp(n, e2, mod, gens[1:], emit)

    def ev_ListComp(self, n, env, mod):
        out = []
        self._comp(n, env, mod, n.generators, lambda e: out.append(self.ev(n.elt, e, mod)))
        return out

    def ev_GeneratorExp(self, n, env, mod):
        return self.ev_ListComp(n, env, mod)

    def ev_SetComp(self, n, env, mod):
        return set(self.ev_ListComp(n, env, mod))

    def ev_DictComp(self, n, env, mod):
        out = {}

        def emit(e):
            out[self.ev(n.key, e, mod)] = self.ev(n.value, e, mod)
        self._comp(n, env, mod, n.generators, emit)
        return out

    def ev_Starred(self, n, env, mod):
        raise Undecided("starred expression outside call/tuple")

    # -- calls -------------------------------------------------------------------------------
    def ev_Call(self, n, env, mod):
        if isinstance(n.func, ast.Name) and n.func.id == "super" and not n.args:
            if "__class__" not in env or env.get("__self__") is None:
                raise Undecided("super() outside a method")
            return SuperVal(env["__class__"], env["__self__"])
        f = self.ev(n.func, env, mod)
        args = []
        for a in n.args:
            if isinstance(a, ast.Starred):
                args.extend(self.iterate(self.ev(a.value, env, mod), a))
            else:
                args.append(self.ev(a, env, mod))
        kwargs = {}
        for k in n.keywords:
            if k.arg is None:
                d = self.ev(k.value, env, mod)
                if not isinstance(d, dict):
                    raise Undecided(f"** of non-dict in call {unparse(n)[:60]}")
                kwargs.update(d)
            else:
                kwargs[k.arg] = self.ev(k.value, env, mod)
        return self.call(f, args, kwargs, n)

    def call(self, f, args, kwargs, node=None):
        if isinstance(f, FuncVal):
            return self.call_function(f, args, kwargs)
        if isinstance(f, tuple) and f:
            if f[0] == "builtin":
                return BUILTINS[f[1]](self, args, kwargs, node)
            if f[0] == "closure":
                fv, cenv = f[1], f[2]
                names = [a.arg for a in fv.node.args.args]
                e2 = dict(cenv)
                e2.update(zip(names, args))
                e2.update(kwargs)
                return self.ev(fv.node.body, e2, fv.module)
            if f[0] == "dictmethod":
                return self.dict_method(f[1], f[2], args, kwargs, node)
            if f[0] == "seqmethod":
                return self.seq_method(f[1], f[2], args, kwargs, node)
            if f[0] == "strmethod":
                return self.str_method(f[1], f[2], args, kwargs, node)
        if isinstance(f, ClassVal):
            return self.instantiate(f, args, kwargs, node)
        if isinstance(f, External):
            return self.call_external(f, args, kwargs, node)
        if isinstance(f, Opaque):
            return Opaque(("call", f.tag, tuple(a if not isinstance(a, (list, dict, set)) else repr(a) for a in args),
                           tuple(sorted((k, v if not isinstance(v, (list, dict, set)) else repr(v)) for k, v in kwargs.items()))))
        raise Undecided(f"call of {f!r}: {unparse(node)[:60] if node is not None else ''}")

    def call_external(self, f, args, kwargs, node):
        nm = f.name
        model = self.ext_models.get(nm)
        if model is not None:
            return model(self, args, kwargs)
        if nm in ("builtins.set", "builtins.list", "builtins.tuple", "builtins.dict"):
            ctor = {"builtins.set": set, "builtins.list": list, "builtins.tuple": tuple, "builtins.dict": dict}[nm]
            if not args:
                return ctor(**kwargs) if ctor is dict else ctor()
            if ctor is dict:
                src = args[0]
                if isinstance(src, dict):
                    d = dict(src)
                    d.update(kwargs)
                    return d
                if isinstance(src, Opaque):
                    return Opaque(("dict", src.tag))
                return dict(self.iterate(src))
            return ctor(self.iterate(args[0], node))
        if nm == "builtins.type":
            cn = self.class_name_of(args[0])
            if cn is None:
                return Opaque(("type", args[0] if isinstance(args[0], Opaque) else repr(args[0])))
            if cn in NUMPY_SCALAR_MRO:
                return External(cn)
            return self.w.classes.get(cn) or External(f"builtins.{cn}")
        if nm in ("builtins.str", "builtins.float", "builtins.int", "builtins.bool"):
            if args and not isinstance(args[0], (Opaque, Inst)):
                return {"builtins.str": str, "builtins.float": float, "builtins.int": int, "builtins.bool": bool}[nm](args[0])
            return Opaque((nm, args[0] if args else None), {"builtins.str": "str", "builtins.float": "real", "builtins.int": "int", "builtins.bool": "bool"}[nm])
        return Opaque(("extcall", nm, tuple(a if not isinstance(a, (list, dict, set)) else repr(a) for a in args),
                       tuple(sorted((k, v if not isinstance(v, (list, dict, set)) else repr(v)) for k, v in kwargs.items()))), "arraylike")

    def instantiate(self, cls: ClassVal, args, kwargs, node):
        nt = self.w.namedtuple_fields(cls.name)
        inst = Inst(cls, {}, origin="constructed")
        init, cv = self.w.find_method(cls.name, "__init__")
        new, cvn = self.w.find_method(cls.name, "__new__")
        if init is None and nt is not None:
            if len(args) + len(kwargs) != len(nt):
                raise PyRaise("TypeError", f"{cls.name}() takes {len(nt)} fields, {len(args) + len(kwargs)} given")
            for fld, v in zip(nt, args):
                inst.attrs[fld] = v
            for k, v in kwargs.items():
                if k not in nt:
                    raise PyRaise("TypeError", f"{cls.name}() got an unexpected field {k}")
                inst.attrs[k] = v
            return inst
        if init is not None:
            self.call_function(FuncVal(init, cv.module, bound=inst, owner=cv), args, kwargs)
            return inst
        if new is not None:
            inst.attrs["__new_args__"] = (tuple(args), dict(kwargs))
            return inst
        inst.attrs["__args__"] = (tuple(args), dict(kwargs))
        return inst

    # -- container methods ---------------------------------------------------------------------
    def dict_method(self, d, name, args, kwargs, node):
        if name == "pop":
            k = args[0]
            if isinstance(k, Opaque):
                raise Undecided("dict.pop with opaque key")
            if k in d:
                self.trace.append(("pop", id(d), k, getattr(node, "lineno", None)))
                return d.pop(k)
            if len(args) > 1:
                return args[1]
            raise PyRaise("KeyError", repr(k), getattr(node, "lineno", None))
        if name == "get":
            k = args[0]
            if isinstance(k, Opaque):
                raise Undecided("dict.get with opaque key")
            return d.get(k, args[1] if len(args) > 1 else None)
        if name == "items":
            return list(d.items())
        if name == "keys":
            return list(d.keys())
        if name == "values":
            return list(d.values())
        if name == "copy":
            return dict(d)
        if name == "update":
            for a in args:
                if not isinstance(a, dict):
                    raise Undecided("dict.update with non-dict")
                d.update(a)
            d.update(kwargs)
            return None
        if name == "setdefault":
            return d.setdefault(args[0], args[1] if len(args) > 1 else None)
        raise Undecided(f"dict method {name}")

    def seq_method(self, s, name, args, kwargs, node):
        if name == "append":
            s.append(args[0])
            return None
        if name == "extend":
            s.extend(self.iterate(args[0]))
            return None
        if name == "add":
            s.add(args[0])
            return None
        if name == "remove":
            try:
                s.remove(args[0])
            except (ValueError, KeyError):
                raise PyRaise("ValueError" if isinstance(s, list) else "KeyError", repr(args[0])) from None
            return None
        if name == "discard":
            s.discard(args[0])
            return None
        if name == "index":
            try:
                return s.index(args[0])
            except ValueError:
                raise PyRaise("ValueError", f"{args[0]!r} is not in list") from None
        if name == "copy":
            return s.copy()
        if name in ("issubset", "issuperset", "intersection", "union", "difference", "isdisjoint"):
            return getattr(set(s), name)(set(self.iterate(args[0])))
        if name == "pop":
            try:
                return s.pop(*args)
            except (IndexError, KeyError):
                raise PyRaise("IndexError", "pop") from None
        if name == "insert":
            s.insert(args[0], args[1])
            return None
        if name == "count":
            return s.count(args[0])
        if name == "sort" and isinstance(s, list):
            s.sort(key=_sort_key(self, kwargs, node), reverse=bool(kwargs.get("reverse", False)))
            return None
        raise Undecided(f"list/set method {name}")

    def str_method(self, s, name, args, kwargs, node):
        if name == "join":
            items = self.iterate(args[0])
            if any(isinstance(x, Opaque) for x in items):
                return Opaque("joined", "str")
            return s.join(items)
        if any(isinstance(a, Opaque) for a in args):
            return Opaque(("str." + name,), "str")
        if name in ("replace", "startswith", "endswith", "lower", "upper", "split", "strip", "format", "lstrip", "rstrip", "isidentifier"):
            return getattr(s, name)(*args)
        raise Undecided(f"str method {name}")


# -- builtins --------------------------------------------------------------------------------

@builtin("len")
def _len(I, args, kwargs, node):
    v = args[0]
    if isinstance(v, (dict, list, tuple, set, frozenset, str)):
        return len(v)
    if isinstance(v, Inst):
        nt = I.w.namedtuple_fields(v.cls.name)
        if nt is not None:
            return len(nt)
    raise Undecided(f"len of {v!r}")


@builtin("isinstance")
def _isinstance(I, args, kwargs, node):
    v, target = args
    cn = I.class_name_of(v)
    if cn is None and isinstance(v, Opaque) and v.kind in EXT_KINDS:
        def hit(t):
            if isinstance(t, tuple):
                return any(hit(x) for x in t)
            if isinstance(t, External):
                return t.name in EXT_KINDS[v.kind]
            return False
        return hit(target)
    if cn is None:
        if isinstance(v, Opaque) and v.kind == "array":
            # arrays are not instances of repo classes nor of numbers / str / bool
            return False
        raise Undecided(f"isinstance of {v!r}: {unparse(node) if node is not None else ''}")
    if isinstance(target, External) and target.name == "builtins.type":
        return isinstance(v, (ClassVal,)) or (isinstance(v, External) and v.name.startswith("builtins."))
    return I.is_subclass_name(cn, target)


@builtin("issubclass")
def _issubclass(I, args, kwargs, node):
    c, target = args
    if isinstance(c, ClassVal):
        return I.is_subclass_name(c.name, target)
    if isinstance(c, External) and c.name.startswith("builtins."):
        return I.is_subclass_name(c.name.split(".")[-1], target)
    if isinstance(c, External) and c.name in NUMPY_SCALAR_MRO:
        def hit(t):
            if isinstance(t, tuple):
                return any(hit(x) for x in t)
            if isinstance(t, External):
                return numpy_scalar_isa(c.name, t.name)
            return False
        return hit(target)
    if isinstance(c, Opaque):
        raise Undecided(f"issubclass of opaque class {c!r}")
    if c is None or isinstance(c, (str, int, float)):
        raise PyRaise("TypeError", "issubclass() arg 1 must be a class")
    raise Undecided(f"issubclass of {c!r}")


@builtin("type")
def _type(I, args, kwargs, node):
    return I.call_external(External("builtins.type"), args, kwargs, node)


@builtin("any")
def _any(I, args, kwargs, node):
    return any(I.truth(x) for x in I.iterate(args[0]))


@builtin("all")
def _all(I, args, kwargs, node):
    return all(I.truth(x) for x in I.iterate(args[0]))


@builtin("repr")
def _repr(I, args, kwargs, node):
    return Opaque(("repr",), "str") if isinstance(args[0], (Opaque, Inst)) else repr(args[0])


@builtin("hasattr")
def _hasattr(I, args, kwargs, node):
    o, a = args
    if isinstance(o, Inst):
        if a in o.attrs:
            return True
        fn, _ = I.w.find_method(o.cls.name, a)
        if fn is not None:
            return True
        if I.w.class_attr(o.cls.name, a) is not None:
            return True
        if o.origin == "abstract" and not o.attrs.get("__closed__"):
            raise Undecided(f"hasattr({o!r}, {a!r}) on an abstract operand")
        return False
    if isinstance(o, Opaque) and o.kind == "ndarray" and a in ("dtype", "shape", "ndim", "view"):
        return True
    if isinstance(o, (list, tuple)) and a in ("dtype", "shape"):
        return False
    raise Undecided(f"hasattr on {o!r}")


@builtin("getattr")
def _getattr(I, args, kwargs, node):
    o, a = args[0], args[1]
    if isinstance(a, Opaque):
        raise Undecided("getattr with opaque name")
    try:
        return I.getattr(o, a, node)
    except PyRaise:
        if len(args) > 2:
            return args[2]
        raise


def _sort_key(I, kwargs, node):
    key = kwargs.get("key")
    if key is None:
        return None

    def k(x):
        v = I.call(key, [x], {}, node)
        if not isinstance(v, (int, float, str, tuple)):
            raise Undecided("sort key is not a concrete value")
        return v

    return k


@builtin("sorted")
def _sorted(I, args, kwargs, node):
    return sorted(I.iterate(args[0]), key=_sort_key(I, kwargs, node), reverse=bool(kwargs.get("reverse", False)))


@builtin("zip")
def _zip(I, args, kwargs, node):
    return list(zip(*[I.iterate(a) for a in args]))


@builtin("enumerate")
def _enumerate(I, args, kwargs, node):
    start = args[1] if len(args) > 1 else kwargs.get("start", 0)
    if not isinstance(start, int):
        raise Undecided("enumerate start is not a concrete integer")
    return list(enumerate(I.iterate(args[0]), start))


@builtin("range")
def _range(I, args, kwargs, node):
    return list(range(*args))


class SuperVal:
    def __init__(self, owner, bound):
        self.owner = owner
        self.bound = bound


@builtin("sum")
def _sum(I, args, kwargs, node):
    tot = args[1] if len(args) > 1 else 0
    for x in I.iterate(args[0]):
        if isinstance(x, Opaque):
            raise Undecided("sum over opaque values")
        tot = tot + x
    return tot


@builtin("next")
def _next(I, args, kwargs, node):
    items = I.iterate(args[0])
    if not items:
        if len(args) > 1:
            return args[1]
        raise PyRaise("StopIteration", "")
    return items[0]


@builtin("print")
def _print(I, args, kwargs, node):
    return None
