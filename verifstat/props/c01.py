"""C01 — results do not depend on the stored coordinate system (template lifting over all table entries)."""
from __future__ import annotations

import collections
import json

from .. import denote, ir, lift
from ..core import VERIF, AnalysisError
from ..dispatchers import dispatch_summary
from ..loader import fn_where, link

LEVEL = "proof"
EXPLANATION = (
    "Every dispatch-table entry (2404 on the pinned tree: hand-written functions and generated closures, "
    "resolved through the link step) is inlined and lifted to a template: stored coordinates become accessor "
    "symbols '<coord>(operand i)', calls to other compute modules on an operand's own coordinates (validated "
    "by ring value number, not by spelling) become operation symbols, the rest is normalised in the ring "
    "normal form; vector results are reduced to an underlying result per coordinate group using the declared "
    "return classes.  Decided: each entry's template equals the template of one of its module's frozen bases "
    "(tables/bases.json: representative signature + reason, confirmed by reading), so every derived variant "
    "denotes the same function of its operands as its base whatever the storage system, with the declared "
    "result classes consistent; entry function names agree with their table keys; declared result arity and "
    "scalar kind (float vs bool) agree with what is returned; the 82 dispatch() functions look up the "
    "signature and feed coordinates in the same operand/group order, pass scalar extras first and in the "
    "variants' order, give _wrap_result the unpacked `returns` and the frozen num_vecargs, and every table has "
    "the full product of signatures.  Agreement *between* distinct native bases of one module (C01.base-agreement): "
    "each frozen native base is denoted in Cartesian generators and compared with the module's all-Cartesian entry; "
    "held only by normal-form proof, violated only with a concrete differing point of the representable domain, "
    "otherwise listed as undecided.  Not decided: the per-system comparison modules, float rounding, run-time wrapping (C03)."
)

SIG_TOKENS = {"xy", "rhophi", "z", "theta", "eta", "t", "tau"}
FULL = {1: 2, 2: 6, 3: 12}


def load_bases():
    p = VERIF / "tables" / "bases.json"
    if not p.exists():
        raise AnalysisError("tables/bases.json missing")
    return json.loads(p.read_text())


def load_dispatch_table():
    p = VERIF / "tables" / "dispatch.json"
    if not p.exists():
        raise AnalysisError("tables/dispatch.json missing")
    return json.loads(p.read_text())


def run(ctx):
    L = link(ctx.repo)
    LF = lift.Lifting(L)
    bases = load_bases()
    dtab = load_dispatch_table()
    ctx.trusted_base = [
        "python ast/inspect link step", "verifstat.ir inliner", "verifstat.nf ring normal form (base rules only)",
        "verifstat.lift template lifting", "tables/bases.json (frozen base representatives, each with a reason)",
        "tables/dispatch.json (frozen num_vecargs / counted operands per module)",
    ]
    ctx.rule("C01.template", "the entry's lifted template equals the template of a frozen base of its module")
    ctx.rule("C01.base-present", "every frozen base representative is still a table entry")
    ctx.rule("C01.entry-name", "a table value whose function name spells a coordinate signature is stored under that signature")
    ctx.rule("C01.result-shape", "number of returned values equals the arity of the declared result classes; float/bool entries return an arithmetic / boolean expression")
    ctx.rule("C01.result-representable", "a vector result is declared with tau only when the transformed operand is stored with tau, and for the symmetric operations (num_vecargs = 2: add, subtract) only when every 4D operand is: a t-stored operand can carry a negative time component, which a tau-class result silently turns into its absolute value")
    ctx.rule("C01.table-complete", "the table's keys are the full product of coordinate systems for the operand dimensions of the module (x extra keys such as Euler orders)")
    ctx.rule("C01.dispatch-lookup", "dispatch() builds the lookup key from _aztype/_ltype/_ttype of the operands in the key order of the table")
    ctx.rule("C01.dispatch-args", "dispatch() passes lib, then scalar extras in the variants' order, then *v.<group>.elements in exactly the key's operand/group order")
    ctx.rule("C01.dispatch-wrap", "dispatch() wraps with (flavor, result, returns, num_vecargs) where num_vecargs and the operands given to _handler_of/_flavor_of/_lib_of are the frozen ones")

    ctx.anchor("compute modules with dispatch_map", len(L.mods), 82)
    n_entries = 0
    n_templates = 0
    n_new_native = 0
    new_native = []
    undecided_templates = []
    for mn in L.mods:
        short = L.short(mn)
        sh = LF.shapes[mn]
        frozen = bases.get(short)
        if frozen is None:
            # a compute module added after the freeze: no base table yet - every entry goes through the E3b fallback below
            frozen = {}
        by_name = {e.signame: e for e in sh.entries}
        tmpl_of = {}
        for e in sh.entries:
            t, outs = LF.template(e)
            tmpl_of[e.signame] = (t, outs)
        base_t = {}
        for rep in frozen:
            ok = rep in by_name
            ctx.ob("C01.base-present", f"{short}[{rep}]", ok, "frozen base representative is no longer in the table")
            if ok:
                base_t.setdefault(tmpl_of[rep][0], rep)
        n_templates += len(base_t)
        for e in sh.entries:
            n_entries += 1
            t, outs = tmpl_of[e.signame]
            hit = base_t.get(t)
            wit = None
            msg = ""
            ok_t = hit is not None
            if hit is None:
                # nearest base: same result descriptor kinds, first differing component
                near, comp = _nearest(t, base_t)
                msg = (f"template matches none of the module's {len(base_t)} frozen bases"
                       + (f"; nearest base [{near}] differs in {comp}" if near else ""))
                wit = {"lifted": [ir.show(o)[:400] for o in outs], "declared": L.ret_name(e.ret)}
                if short.split(".")[1] not in denote.COMPARISON_POLICY:
                    # a formula that is not one of the frozen bases may still be right (a new native variant): decide it by E3b
                    recs = list(denote.single_entry_agreement(L, e))
                    bad = [r for r in recs if r.status == "refuted"]
                    if bad:
                        msg += "; and " + "; ".join(f"{r.construct}: {r.message}" for r in bad[:2])
                        wit["e3b"] = bad[0].witness
                    elif recs and all(r.status == "proved" for r in recs):
                        ok_t = True
                        n_new_native += 1
                        new_native.append(e.name)
                    elif recs:
                        # neither proved nor refuted: not claimed, not reported
                        undecided_templates.append(e.name)
                        ok_t = None
                else:
                    msg += " — comparison modules compare in the operands' common system: a new formula there has to be read and added to tables/bases.json with a reason"
            if ok_t is not None:
                ctx.ob("C01.template", e.name, ok_t, msg, wit, fn_where(e.fn),
                       sample={"base": hit, "lifted": [ir.show(o)[:160] for o in outs]})
            # representability of the declared temporal class
            classes = [r for r in e.ret if r is not None and r in L.COORD_NAMES]
            if len(classes) >= 3 and classes[2] is L.methods.TemporalTau:
                ops4 = [ks for ks in e.kinds if len(ks) == 4]
                sym = (dtab.get(short) or {}).get("num_vecargs") == 2
                need = ops4 if sym else ops4[:1]
                okr = bool(need) and all("tau" in ks for ks in need)
                ctx.ob("C01.result-representable", e.name, okr,
                       "the result is declared TemporalTau although an operand that determines its time component is stored with t (a negative t1 - t2 / t would come back as its absolute value)",
                       {"operands": ["t" if "t" in ks else "tau" for ks in ops4], "symmetric": sym}, fn_where(e.fn))
            # result shape
            ok, msg = _shape_ok(L, e, t, outs)
            ctx.ob("C01.result-shape", e.name, ok, msg, None, fn_where(e.fn))
            # entry name
            toks = e.fn.__name__.split("_")
            if toks and all(tk in SIG_TOKENS for tk in toks):
                coord = "_".join(L.CLS_SHORT[c] for op in e.ops for c in op)
                ctx.ob("C01.entry-name", e.name, e.fn.__name__ == coord,
                       f"function {e.fn.__name__} is stored under signature {coord}", None, fn_where(e.fn))
        # ---- table completeness
        dims = sh.dims
        want = 1
        for d in dims:
            want *= FULL[d]
        coord_keys = collections.Counter(tuple(c for op in e.ops for c in op) for e in sh.entries)
        extras = {e.extra_sig for e in sh.entries}
        ok = len(coord_keys) == want and all(v == len(extras) for v in coord_keys.values()) \
            and all([len(o) for o in e.ops] == dims for e in sh.entries)
        ctx.ob("C01.table-complete", short, ok,
               f"{len(coord_keys)} coordinate signatures x {len(extras)} extra keys; expected {want} signatures for operand dimensions {dims}",
               None, L.short(mn), sample={"dims": dims, "signatures": len(coord_keys), "extra_keys": len(extras)})
        # ---- dispatcher
        _dispatch_rules(ctx, L, mn, sh, dtab)
    _base_agreement(ctx, L, bases)
    ctx.anchor("table entries", n_entries, 2404)
    ctx.analysed["entries"] = n_entries
    ctx.analysed["base_templates"] = n_templates
    ctx.analysed["modules"] = len(L.mods)
    ctx.analysed["entries_outside_frozen_bases_proved_by_e3b"] = new_native
    ctx.analysed["entries_outside_frozen_bases_undecided"] = undecided_templates
    if undecided_templates:
        ctx.decline("entries whose template is not a frozen base and whose Cartesian denotation is neither proved equal to the Cartesian entry nor refuted: " + ", ".join(undecided_templates))
    ctx.decline("agreement of the per-system comparison modules (equal, not_equal, isclose) across systems: comparing in the operands' common system is the module's stated policy and tolerances are not coordinate-invariant")
    ctx.decline("float64 rounding differences between variants")
    ctx.decline("run-time wrapping of results by the backends (C03) and pass-through of higher coordinates")


def _base_agreement(ctx, L, bases):
    """E3b: every native base of a module denotes the same function of the (Cartesian) operands as its Cartesian base"""
    ctx.rule("C01.base-agreement", denote.RULE_DOC)
    n_pairs = n_proved = 0
    undecided = []
    for rec in denote.base_agreement(L, bases):
        n_pairs += rec.new_pair
        if rec.status == "undecided":
            undecided.append(rec.construct)
            continue
        n_proved += rec.status == "proved"
        ctx.ob("C01.base-agreement", rec.construct, rec.status == "proved", rec.message, rec.witness, rec.where, sample=rec.sample)
    if ctx.tier == "thorough":
        _entry_agreement(ctx, L)
    ctx.anchor("native base / Cartesian base pairs compared", n_pairs, 100)
    ctx.analysed["base_pairs"] = n_pairs
    ctx.analysed["base_pairs_proved"] = n_proved
    ctx.analysed["base_pairs_undecided"] = undecided
    if undecided:
        ctx.decline("C01.base-agreement left undecided (no proof in the ring fragment, no differing point found): " + ", ".join(undecided))


def _entry_agreement(ctx, L):
    """thorough tier: the E3b comparison for every table entry, by module in parallel (independent of bases.json and of E3)"""
    import concurrent.futures as cf
    import os

    ctx.rule("C01.entry-agreement", "thorough tier, every non-Cartesian table entry (not only the frozen bases): " + denote.RULE_DOC)
    shorts = [L.short(mn) for mn in L.mods if L.short(mn).split(".")[1] not in denote.COMPARISON_POLICY]
    jobs = min(int(os.environ.get("VERIF_JOBS", "16")), os.cpu_count() or 1)
    n = proved = 0
    undecided = []
    with cf.ProcessPoolExecutor(max_workers=jobs) as ex:
        for recs in ex.map(_entry_worker, [(str(ctx.repo), s) for s in shorts]):
            for construct, status, message, witness, where in recs:
                n += 1
                if status == "undecided":
                    undecided.append(construct)
                    continue
                proved += status == "proved"
                ctx.ob("C01.entry-agreement", construct, status == "proved", message, witness, where)
    ctx.anchor("table entries compared with their Cartesian entry", n, 2000)
    ctx.analysed["entry_comparisons"] = n
    ctx.analysed["entry_comparisons_proved"] = proved
    ctx.analysed["entry_comparisons_undecided"] = len(undecided)
    ctx.analysed["entry_comparisons_undecided_sample"] = undecided[:40]
    ctx.decline(f"C01.entry-agreement: {len(undecided)} of {n} entry comparisons neither proved in the ring fragment nor refuted by a differing point (nested conversions through theta/eta/tau); they remain covered by C01.template + C01.base-agreement")


def _entry_worker(arg):
    repo, short = arg
    from pathlib import Path

    L = link(Path(repo))
    return [(r.construct, r.status, r.message, r.witness, r.where) for r in denote.entry_agreement(L, {short})]


def _nearest(t, base_t):
    best = None
    for bt, rep in base_t.items():
        if bt[0] != t[0]:
            continue
        if t[0] == "vector":
            if len(bt[1]) != len(t[1]):
                continue
            diffs = [i for i, (a, b) in enumerate(zip(t[1], bt[1])) if a != b]
            score = len(diffs)
            comp = f"coordinate group(s) {diffs} (kinds {[t[1][i][1] for i in diffs]} vs {[bt[1][i][1] for i in diffs]})"
        else:
            score = 1
            comp = "the scalar expression"
        if best is None or score < best[0]:
            best = (score, rep, comp)
    return (best[1], best[2]) if best else (None, None)


BOOL_TOP = {"cmp", "not"}


def _shape_ok(L, e, t, outs):
    if t[0] == "arity-mismatch":
        return False, f"declares {t[1]} but returns {t[2]} values"
    if t[0] == "scalar":
        kind = L.ret_name(e.ret)[0] if e.ret else None
        top = outs[0]
        is_bool = top.kind in BOOL_TOP or (top.kind == "op" and top.a[0] in ("&", "|")) or \
            (top.kind == "lib" and top.a[0] in ("isclose",)) or (top.kind == "const" and top.a[0] == "bool")
        if kind == "bool" and not is_bool:
            return False, "declared bool but the returned expression is not a comparison/boolean combination"
        if kind == "float" and is_bool:
            return False, "declared float but the returned expression is boolean"
        if kind not in ("bool", "float"):
            return False, f"scalar result declared as {kind}"
    return True, ""


def _dispatch_rules(ctx, L, mn, sh, dtab):
    short = L.short(mn)
    d = dispatch_summary(L.mods[mn])
    where = f"{L.short(mn)}.dispatch (line {d.line})"
    if d.problems:
        ctx.ob("C01.dispatch-lookup", short, False, "; ".join(d.problems), None, where)
        return
    ops = d.operands()
    e0 = sh.entries[0]
    groups_of = {1: ["azimuthal"], 2: ["azimuthal", "longitudinal"], 3: ["azimuthal", "longitudinal", "temporal"]}
    want_ops = [groups_of[len(o)] for o in e0.ops]
    n_extra_keys = len(e0.extra_sig)
    ok = [g for _, g in ops] == want_ops and len(d.sig_extras()) == n_extra_keys and d.table_name == "dispatch_map"
    # extras in the key come last (after the coordinate classes), as in the table keys
    if ok and n_extra_keys:
        ok = all(it[0] == "type" for it in d.sig_items[: len(d.sig_items) - n_extra_keys])
    ctx.ob("C01.dispatch-lookup", short, ok,
           f"lookup key groups {[g for _, g in ops]} + {len(d.sig_extras())} extras; table keys have {want_ops} + {n_extra_keys} extras",
           None, where, sample={"operands": ops, "extras": d.sig_extras()})
    # args
    want_star = [(v, g) for v, gs in ops for g in gs]
    nextra = e0.nextra
    ok = d.star_args == want_star and len(d.extra_args) == nextra and all(e.nextra == nextra for e in sh.entries)
    msg = f"coordinate arguments {d.star_args} vs key order {want_star}; {len(d.extra_args)} scalar extras vs {nextra} in the variants"
    if ok and nextra:
        # extras are dispatch parameters (or obj['..'] items) in parameter order, and agree by name with hand-written variants
        vec = {v for v, _ in ops}
        scalars = [p for p in d.params if p not in vec and p not in d.sig_extras()]
        plain = [a for a in d.extra_args]
        if all(a.isidentifier() for a in plain):
            if plain != scalars:
                ok = False
                msg = f"scalar arguments {plain} are not the dispatch parameters {scalars} in order"
            else:
                for e in sh.entries:
                    own = e.own_extra_names()
                    if e.fn.__name__ != "f" and own != plain and not all(o.startswith("coord") or o.startswith("extra") for o in own):
                        # tolerate harmless renamings only if positions keep the same names up to case
                        if [o.lower() for o in own] != [p.lower() for p in plain]:
                            ok = False
                            msg = f"variant {e.fn.__name__} names its scalars {own}, dispatch passes {plain}"
                            break
        else:
            # obj['xx'] style: names must match the variant's parameter names in order
            keys = [a.split("[")[1].strip("]'\"") if "[" in a else a for a in plain]
            for e in sh.entries:
                own = e.own_extra_names()
                if e.fn.__name__ != "f" and own != keys:
                    ok = False
                    msg = f"variant {e.fn.__name__} takes matrix entries {own}, dispatch passes {keys}"
                    break
    ctx.ob("C01.dispatch-args", short, ok, msg, None, where, sample={"extras": d.extra_args, "stars": d.star_args})
    # wrap
    fz = dtab.get(short)
    if fz is None:
        ctx.ob("C01.dispatch-wrap", short, False, "module missing from tables/dispatch.json")
        return
    vec = [v for v, _ in ops]
    counted = [vec[i] for i in fz["counted_operands"]]
    hexp = vec[0] if (len(counted) == 1 and fz["handler_style"] == "self") else f"_handler_of({', '.join(counted)})"
    fexp = f"_flavor_of({', '.join(counted)})"
    lexp = f"{vec[0]}.lib" if fz["lib_style"] == "self" else f"_lib_of({', '.join(vec)})"
    ok = d.returns_arg == "returns" and d.num_vecargs == fz["num_vecargs"] and d.handler_expr == hexp \
        and d.flavor_expr == fexp and d.lib_expr == lexp
    ctx.ob("C01.dispatch-wrap", short, ok,
           f"found handler={d.handler_expr}, flavor={d.flavor_expr}, lib={d.lib_expr}, returns={d.returns_arg}, num_vecargs={d.num_vecargs}; "
           f"frozen handler={hexp}, flavor={fexp}, lib={lexp}, returns=returns, num_vecargs={fz['num_vecargs']}",
           None, where)
