"""C02 — every operation computes its documented mathematical definition (kernels only)."""
from __future__ import annotations

import ast
import importlib.util
import json
import re

from .. import ir, nf
from ..algebra import Kernels
from ..core import VERIF, AnalysisError
from ..loader import facts, link, unparse

LEVEL = "proof"
EXPLANATION = (
    "For each documented formula (tables/definitions.py: ~80 rows transcribed from the docstrings of "
    "VectorProtocol* and docs/index.md, one per accessor/operation and native coordinate system) the table entry "
    "of that signature is inlined into an expression DAG and compared, output by output, with the definition in "
    "the ring normal form over Q[params, cos, sin, sqrt, exp, ...] (equal normal forms <=> equal functions of the "
    "operands, on all operands where both sides are defined): Cartesian/polar/pseudorapidity/proper-time relations, "
    "the (-,-,-,+) Minkowski product, component-wise add/subtract/scale, right-handed cross product, active "
    "right-handed rotateX/Y/Z, row-by-column transform2D/3D/4D, deltaphi wrapped into [-pi,pi], deltaeta, deltaR(2), "
    "deltaangle with clamped cosine, rapidity, Et/Et2/Mt2, beta, gamma, to_beta3, unit vectors, active axis boosts.  "
    "Where the documentation is itself code (the code blocks in the docstrings of t, t2, tau, tau2, rapidity) the "
    "block is parsed from the docstring at run time and used as the oracle, so implementation and documentation "
    "must agree with each other.  Every other signature is transported to these by C01; arbitrary-axis, "
    "quaternion, Euler rotations and general boosts are decided through the laws of C09/C10.  Not decided: the "
    "float64 error bound, definitions whose two sides differ by a transcendental identity outside the fragment, "
    "NumPy's own implementation of lib.*."
)

FUNCS = {"sqrt", "sin", "cos", "tan", "sinh", "exp", "log", "arctan2", "arccos", "arcsinh", "arctan", "maximum", "minimum", "copysign", "sign"}
ALIASES = {"abs": "absolute", "max": "maximum", "min": "minimum"}


def term(expr: str, env: dict) -> ir.Node:
    tree = ast.parse(expr.strip(), mode="eval").body

    def ev(n):
        if isinstance(n, ast.Name):
            if n.id == "pi":
                return ir.mk("libattr", "pi")
            if n.id in env:
                return env[n.id]
            raise AnalysisError(f"definition uses unknown name {n.id}")
        if isinstance(n, ast.Constant):
            return ir.const(n.value)
        if isinstance(n, ast.UnaryOp) and isinstance(n.op, ast.USub):
            return ir.mk("neg", ev(n.operand))
        if isinstance(n, ast.BinOp):
            o = ir.BIN.get(type(n.op))
            return ir.mk("op", o, ev(n.left), ev(n.right))
        if isinstance(n, ast.Call) and isinstance(n.func, ast.Name):
            f = ALIASES.get(n.func.id, n.func.id)
            args = [ev(a) for a in n.args]
            if f == "wrap":
                pi = ir.mk("libattr", "pi")
                return ir.mk("op", "-", ir.mk("op", "%", ir.mk("op", "+", args[0], pi), ir.mk("op", "*", ir.const(2), pi)), pi)
            if f == "absolute" or f in FUNCS:
                return ir.mk("lib", f, tuple(args), ())
        raise AnalysisError(f"definition term not understood: {ast.unparse(n)}")

    return ev(tree)


def load_rows():
    p = VERIF / "tables" / "definitions.py"
    spec = importlib.util.spec_from_file_location("verif_definitions", p)
    mod = importlib.util.module_from_spec(spec)
    spec.loader.exec_module(mod)
    return mod.ROWS


DOC_ORACLES = {
    # protocol method -> (module, signature, params, how names in the docstring map to expressions)
    "t": ("lorentz.t", "xy_z_tau"), "t2": ("lorentz.t2", "xy_z_tau"),
    "tau": ("lorentz.tau", "xy_z_t"), "tau2": ("lorentz.tau2", "xy_z_t"), "rapidity": ("lorentz.rapidity", "xy_z_t"),
}


def run(ctx):
    L = link(ctx.repo)
    K = Kernels(L)
    rows = load_rows()
    ctx.trusted_base = [
        "python ast/inspect link step", "verifstat.ir inliner", "verifstat.nf ring normal form (+ named optional rules per row)",
        "tables/definitions.py: the documented formulas, transcribed by hand from docstrings / docs (each row cites its source)",
    ]
    ctx.rule("C02.definition", "the table entry equals the documented formula, output by output, in the ring normal form")
    ctx.rule("C02.docstring-oracle", "the entry equals the code block in the method's own docstring (parsed at run time)")
    ctx.anchor("definition rows", len(rows), 70)
    covered = set()
    for mod, signame, params, outs, rules, source in rows:
        e = K.entry(mod, signame)
        if len(params) != len(e.params) - 1:
            raise AnalysisError(f"definition row {mod}[{signame}] has {len(params)} parameters, the entry takes {len(e.params) - 1}")
        env = {p: ir.param(p) for p in params}
        got = K(mod, signame, *[env[p] for p in params])
        ring = nf.Ring(rules=rules)
        ok = len(got) == len(outs)
        msg = f"entry returns {len(got)} values, the definition has {len(outs)}"
        wit = None
        if ok:
            for i, (g, dexpr) in enumerate(zip(got, outs)):
                want = term(dexpr, env)
                a, b = ring.of(g), ring.of(want)
                if not a.eq(b):
                    ok = False
                    msg = f"output {i} differs from the documented `{dexpr}`"
                    wit = {"output": i, "implementation": ir.show(g)[:300], "definition": dexpr, "residual": ring.show_poly(a.residual(b))}
                    break
        covered.add((mod, signame))
        ctx.ob("C02.definition", f"{mod}[{signame}]", ok, msg, wit, K.where(mod, signame), sample={"entry": f"{mod}[{signame}]", "definition": list(outs), "source": source})

    # ---- docstring oracles --------------------------------------------------------------------------
    mf = facts("src/vector/_methods.py", ctx.repo)
    proto = mf.classes.get("VectorProtocolLorentz")
    if proto is None:
        raise AnalysisError("anchor VectorProtocolLorentz missing")
    found = 0
    for st in proto.body:
        if isinstance(st, ast.FunctionDef) and st.name in DOC_ORACLES:
            doc = ast.get_docstring(st) or ""
            m = re.search(r"\.\. code-block:: python\s*\n\s*\n\s*(.+)", doc)
            if not m:
                ctx.ob("C02.docstring-oracle", f"VectorProtocolLorentz.{st.name}", False, "docstring has no code block to use as oracle", None, f"src/vector/_methods.py:{st.lineno}")
                continue
            line = m.group(1).strip()
            rhs = line.split("=", 1)[1].strip() if re.match(r"^\w+\s*=", line) else line
            mod, signame = DOC_ORACLES[st.name]
            e = K.entry(mod, signame)
            names = e.coord_names()
            env = {n.rstrip("1"): ir.param(n) for n in names}
            x, y, z = env["x"], env["y"], env["z"]
            mag2 = ir.mk("op", "+", ir.mk("op", "+", ir.mk("op", "**", x, ir.const(2)), ir.mk("op", "**", y, ir.const(2))), ir.mk("op", "**", z, ir.const(2)))
            env["mag"] = ir.mk("lib", "sqrt", (mag2,), ())
            got = K(mod, signame, *[ir.param(n) for n in names])
            ring = nf.Ring()
            try:
                want = term(rhs, env)
                ok = ring.of(got[0]).eq(ring.of(want))
                msg = f"implementation `{ir.show(got[0])[:200]}` differs from the docstring's `{rhs}`"
            except AnalysisError as ex:
                ok, msg = False, f"docstring code block not understood: {ex}"
            found += 1
            ctx.ob("C02.docstring-oracle", f"VectorProtocolLorentz.{st.name} vs {mod}[{signame}]", ok, msg, None, f"src/vector/_methods.py:{st.lineno}",
                   sample={"docstring": line})
    ctx.anchor("docstring oracles", found, 5)

    bases = json.loads((VERIF / "tables" / "bases.json").read_text())
    allb = [(m, s) for m, d in bases.items() for s in d]
    unc = [f"{m}[{s}]" for m, s in allb if (m, s) not in covered]
    ctx.analysed["bases_total"] = len(allb)
    ctx.analysed["bases_with_definition_row"] = len(allb) - len(unc)
    ctx.analysed["bases_without_definition_row"] = unc
    ctx.decline("float64 error bounds; NumPy's implementation of lib.*")
    ctx.decline(f"{len(unc)} native bases have no definition row (comparison policies, per-system scale/unit/boost natives, Euler orders and general boosts/rotations decided by the laws of C09/C10/C11/C12): listed under analysed.bases_without_definition_row")
