"""C03 — object, NumPy and Awkward (and SymPy) backends compute the same values: structural clauses."""
from __future__ import annotations

import ast
import itertools
import multiprocessing
import os

from .. import wrappers as wr
from ..core import AnalysisError
from ..loader import all_source_files, facts, literal, parse_file, rel, unparse
from ..peval import ClassVal, FuncVal, Inst, Interp, Opaque, PyRaise, World

LEVEL = "other"
EXPLANATION = (
    "All backends share one compute layer, so equality of values reduces to structural clauses, each necessary. "
    "(1) Same kernel/library: no code outside the compute layer calls a variant function directly (only "
    "<module>.dispatch), and every numeric backend's `lib` is NumPy.  (2) Same coordinate order: for each of the "
    "7 coordinate classes the documented name tuple, _coordinate_class_to_names, the constructor argument order "
    "and the `elements` tuple agree in the object, NumPy, Awkward and SymPy backends, and the generic->backend "
    "class maps pair equal suffixes.  (3) Same wrapping: every _wrap_result implementation (object/NumPy/SymPy "
    "2D/3D/4D and VectorAwkward) is interpreted abstractly for every `returns` shape x stored coordinate system "
    "x num_vecargs x flavor, and its summary (projection class, which result column or stored group feeds which "
    "coordinate, which fields are carried) must equal the specification derived from the shape, hence the "
    "backends agree with each other.  Not decided: NumPy/Awkward broadcasting of scalars and objects against "
    "arrays, list-structure preservation by ak.transform/ak.zip (library semantics)."
)

DOC_SYN = {"px": "x", "py": "y", "pt": "rho", "pz": "z", "E": "t", "e": "t", "energy": "t", "M": "tau", "m": "tau", "mass": "tau"}
GROUP_OF = {"x": 0, "y": 0, "rho": 0, "phi": 0, "z": 1, "theta": 1, "eta": 1, "t": 2, "tau": 2}
COORD_NAMES = wr.COORD_NAMES
PRE = {"object": "Object", "numpy": "Numpy", "awkward": "Awkward", "sympy": "Sympy"}
FILES = {"object": "src/vector/backends/object.py", "numpy": "src/vector/backends/numpy.py",
         "awkward": "src/vector/backends/awkward.py", "sympy": "src/vector/backends/sympy.py"}


def self_class_combos(dim):
    return [list(c) for c in itertools.product(wr.AZS, *([wr.LOS] if dim >= 3 else []), *([wr.TES] if dim >= 4 else []))]


# ---- awkward field sets and specification ----------------------------------------------------------

def awkward_field_sets():
    az = [("x", "y"), ("x", "py"), ("px", "y"), ("px", "py"), ("rho", "phi"), ("pt", "phi")]
    lo = [("z",), ("pz",), ("theta",), ("eta",)]
    te = [("t",), ("E",), ("e",), ("energy",), ("tau",), ("M",), ("m",), ("mass",)]
    out = []
    for a in az:
        out.append(list(a))
        for l in lo:
            out.append(list(a + l))
            for t in te:
                out.append(list(a + l + t))
    return out


def awkward_spec(fields, R, num_vecargs, flavor_momentum):
    """documented outcome for an Awkward handler whose record has `fields` (coordinates in any spelling + extras)"""
    if R in (["float"], ["bool"]):
        return ("scalar",)
    coordf = [f for f in fields if DOC_SYN.get(f, f) in GROUP_OF]
    ds = 1 + max(GROUP_OF[DOC_SYN.get(f, f)] for f in coordf) + 1 - 1 if coordf else 2
    ds = 2 + max(GROUP_OF[DOC_SYN.get(f, f)] for f in coordf)
    classes = [r for r in R if r is not None]
    trailing = len(R) - len(classes)
    if len(classes) == 1:
        dim = 2 if trailing else ds
    elif len(classes) == 2:
        dim = 3 if trailing else max(3, ds)
    else:
        dim = 4
    coords = {}
    i = 0
    for c in classes:
        for nm in COORD_NAMES[c]:
            coords[nm] = f"result[{i}]"
            i += 1
    extras = []
    if num_vecargs == 1:
        for f in fields:
            g = DOC_SYN.get(f, f)
            if g in GROUP_OF:
                gi = GROUP_OF[g]
                if gi < len(classes):
                    continue  # replaced by the result
                if gi > dim - 2:
                    continue  # projected away
                extras.append((f, f"self[{f!r}]"))  # stored higher coordinate passes through under its own name
            else:
                extras.append((f, f"self[{f!r}]"))
    name = f"{'Momentum' if flavor_momentum else 'Vector'}{dim}D"
    return ("vector", name, coords, extras)


_WORLDS = {}


def _awk_worker(job):
    repo, cases = job
    from pathlib import Path
    if repo not in _WORLDS:
        _WORLDS[repo] = World(Path(repo))
    W = _WORLDS[repo]
    bad = []
    n = 0
    for fields, R, nv, cls_name in cases:
        n += 1
        fl = cls_name.startswith("Momentum")
        dsf = 2 + max(GROUP_OF[DOC_SYN.get(f, f)] for f in fields if DOC_SYN.get(f, f) in GROUP_OF)
        nR = len([r for r in R if r is not None])
        if nv == 2 and R not in (["float"], ["bool"]) and nR < dsf - 1 and len(R) == nR:
            continue  # a binary operation never returns fewer groups than its operands have without projecting
        try:
            got = wr.summarize_awkward(W, fields, R, nv, cls_name)
        except AnalysisError as e:
            bad.append((fields, R, nv, cls_name, f"analysis: {e}", None, None))
            continue
        exp = awkward_spec(fields, R, nv, fl)
        if exp[0] == "scalar":
            ok = got[0] == "scalar"
        else:
            ok = got[0] == "vector" and got[1] == exp[1] and got[2] == exp[2] and sorted(got[3]) == sorted(exp[3])
            if ok:
                meta = got[4]
                ok = meta["depth_limit"] is not None and "purelist_depth" in meta["depth_limit"] and "result[" in meta["depth_limit"]
        if not ok:
            bad.append((fields, R, nv, cls_name, "summary differs from the specification", repr(got[:4])[:500], repr(exp)[:500]))
    return n, bad


def run(ctx):
    W = World(ctx.repo)
    ctx.rule("C03.who-may-call", "outside src/vector/_compute, compute modules are used only through <module>.dispatch(...) (never a variant function or dispatch_map entry)")
    ctx.rule("C03.lib", "the `lib` of every numeric backend is numpy (VectorObject.lib, VectorNumpy/CoordinatesNumpy.lib, CoordinatesAwkward.lib; VectorAwkward.lib returns numpy or the typetracer shim around numpy)")
    ctx.rule("C03.coordinate-order", "documented coordinate order == _coordinate_class_to_names == constructor argument order == `elements` tuple, for each of the 7 coordinate classes in each backend; class maps pair equal suffixes")
    ctx.rule("C03.wrap-spec", "object / NumPy / SymPy _wrap_result summary (projection class, coordinate <- result column | stored group) equals the specification derived from the `returns` shape")
    ctx.rule("C03.wrap-awkward", "VectorAwkward._wrap_result summary (record name, coordinate fields, carried fields, depth_limit) equals the specification for every field spelling set")

    _duck_typed_kernels(ctx)
    _value_preserving_fill(ctx)
    _scalar_promotion(ctx, W)

    # ---- (1) who may call
    n_sites = 0
    for path in all_source_files(ctx.repo):
        r = rel(path, ctx.repo)
        if "/_compute/" in r or r.endswith("_numba.py") or r.endswith("_numba_object.py"):
            continue
        tree = parse_file(path)
        for fn in ast.walk(tree):
            if not isinstance(fn, (ast.FunctionDef, ast.Module)):
                continue
        imported = {}
        for node in ast.walk(tree):
            if isinstance(node, ast.ImportFrom) and (node.module or "").startswith("vector._compute."):
                for al in node.names:
                    imported[al.asname or al.name] = f"{node.module}.{al.name}"
        for node in ast.walk(tree):
            if isinstance(node, ast.Attribute) and isinstance(node.value, ast.Name) and node.value.id in imported:
                n_sites += 1
                ctx.ob("C03.who-may-call", f"{r}:{node.lineno} {imported[node.value.id]}.{node.attr}", node.attr == "dispatch",
                       f"uses {imported[node.value.id]}.{node.attr} instead of going through dispatch", None, f"{r}:{node.lineno}")
            if isinstance(node, ast.Attribute) and node.attr in ("dispatch_map",) and "_compute" not in r:
                ctx.ob("C03.who-may-call", f"{r}:{node.lineno} dispatch_map", False, "reads a dispatch_map outside the compute layer", None, f"{r}:{node.lineno}")
    ctx.anchor("compute-module uses outside the compute layer", n_sites, 90)

    # ---- lib
    for relp, cls in (("src/vector/backends/object.py", "VectorObject"), ("src/vector/backends/numpy.py", "VectorNumpy"),
                      ("src/vector/backends/numpy.py", "CoordinatesNumpy"), ("src/vector/backends/awkward.py", "CoordinatesAwkward")):
        attrs = facts(relp, ctx.repo).class_attrs(cls)
        v = attrs.get("lib")
        ctx.ob("C03.lib", f"{cls}.lib", v is not None and unparse(v) == "numpy", f"lib is {unparse(v) if v is not None else None}", None, relp)
    fn = facts("src/vector/backends/awkward.py", ctx.repo).method("VectorAwkward", "lib")
    rets = [unparse(n.value) for n in ast.walk(fn) if isinstance(n, ast.Return)] if fn is not None else []
    ctx.ob("C03.lib", "VectorAwkward.lib", sorted(rets) == sorted(["numpy", "_lib(module=numpy, nplike=nplike)"]), f"returns {rets}", None, "src/vector/backends/awkward.py")

    # ---- (2) coordinate order
    mf = facts("src/vector/_methods.py", ctx.repo)
    tab = mf.assigns.get("_coordinate_class_to_names")
    got_tab = {unparse(k): literal(v) for k, v in zip(tab.keys, tab.values)} if isinstance(tab, ast.Dict) else None
    ctx.ob("C03.coordinate-order", "_coordinate_class_to_names", got_tab == COORD_NAMES, f"table is {got_tab}", None, "src/vector/_methods.py")
    for backend, pre in PRE.items():
        for gen, names in COORD_NAMES.items():
            cname = gen.replace("Azimuthal", f"Azimuthal{pre}").replace("Longitudinal", f"Longitudinal{pre}").replace("Temporal", f"Temporal{pre}")
            if cname not in W.classes:
                raise AnalysisError(f"anchor class {cname} missing")
            where = FILES[backend]
            if backend == "numpy":
                fn, cv = W.find_method(cname, "elements")
                ret = [n for n in ast.walk(fn) if isinstance(n, ast.Return)] if fn else []
                got = [unparse(e) for e in ret[0].value.elts] if ret and isinstance(ret[0].value, ast.Tuple) else None
                want = [f"self['{n}']" for n in names]
                ok = got == want and gen in W.mro(cname)
                ctx.ob("C03.coordinate-order", f"{cname}.elements", ok, f"elements returns {got}, expected {want}", None, where)
                oc = W.class_attr(cname, "ObjectClass")
                want_oc = f"vector.backends.object.{cname.replace('Numpy', 'Object')}"
                ctx.ob("C03.coordinate-order", f"{cname}.ObjectClass", oc is not None and unparse(oc[0]) == want_oc,
                       f"ObjectClass is {unparse(oc[0]) if oc else None}, expected {want_oc}", None, where)
                continue
            I = Interp(W)
            toks = [Opaque(f"a{i}", "real") for i in range(len(names))]
            try:
                inst = I.instantiate(W.classes[cname], toks, {}, None)
                el = I.getattr(inst, "elements")
                fields = {n: inst.attrs.get(n) for n in names}
                ok = tuple(el) == tuple(toks) and [fields[n] for n in names] == toks and gen in W.mro(cname)
                msg = f"{cname}(a0, a1..) has elements {el!r} and fields {fields!r}"
            except (PyRaise, AnalysisError) as e:
                ok, msg = False, f"cannot construct/inspect: {e}"
            ctx.ob("C03.coordinate-order", f"{cname}(ctor/elements)", ok, msg, None, where, sample=msg)
    for relp, tname, pre in (("src/vector/backends/object.py", "_coord_object_type", "Object"), ("src/vector/backends/sympy.py", "_coord_sympy_type", "Sympy")):
        node = facts(relp, ctx.repo).assigns.get(tname)
        got = {unparse(k): unparse(v) for k, v in zip(node.keys, node.values)} if isinstance(node, ast.Dict) else None
        want = {g: g.replace("Azimuthal", f"Azimuthal{pre}").replace("Longitudinal", f"Longitudinal{pre}").replace("Temporal", f"Temporal{pre}") for g in COORD_NAMES}
        ctx.ob("C03.coordinate-order", tname, got == want, f"map is {got}", None, relp)

    # ---- (3) wrapping: object / numpy / sympy
    shapes = wr.returns_shapes()
    ctx.anchor("returns shapes", len(shapes), 30)
    ncase = 0
    for backend in ("object", "numpy", "sympy"):
        pre = PRE[backend]
        for dim in (2, 3, 4):
            for sc in self_class_combos(dim):
                for R in shapes:
                    for nv in (1, 2):
                        for flavor in ("Vector", "Momentum"):
                            cls_name = f"{flavor}{pre}{dim}D"
                            try:
                                if backend == "numpy":
                                    got = wr.summarize_numpy(W, dim, sc, R, nv, cls_name)
                                else:
                                    got = wr.summarize_objectlike(W, backend, dim, sc, R, nv, cls_name)
                            except AnalysisError as e:
                                raise AnalysisError(f"{backend} {dim}D _wrap_result on {R}: {e}") from e
                            exp = wr.spec_summary(dim, sc, R, flavor, backend)
                            ncase += 1
                            if exp[0] == "scalar":
                                ok = got[0] == "scalar"
                                want_txt = "the result unchanged"
                            else:
                                want_proj = f"{flavor}{pre}{exp[1]}D"
                                ok = got[0] == "vector" and got[1] == want_proj and got[2] == exp[2]
                                want_txt = f"{want_proj} {exp[2]}"
                            name = f"Vector{pre}{dim}D._wrap_result[self={'/'.join(s.replace('Azimuthal', '').replace('Longitudinal', '').replace('Temporal', '') for s in sc)}; returns={[str(r).replace('Azimuthal', 'Az').replace('Longitudinal', 'L').replace('Temporal', 'T') for r in R]}; num_vecargs={nv}; cls={cls_name}]"
                            ctx.ob("C03.wrap-spec", name, ok, f"summary {got[:3]} differs from {want_txt}",
                                   {"got": repr(got[:3]), "expected": want_txt}, FILES[backend],
                                   sample={"returns": [str(r) for r in R], "summary": repr(got[:3])})
    ctx.analysed["wrap_cases_object_numpy_sympy"] = ncase

    # ---- awkward
    fsets = awkward_field_sets()
    cases = []
    for f in fsets:
        mom = any(x in DOC_SYN for x in f)
        for extra in ([], ["charge"]):
            for R in shapes:
                for nv in (1, 2):
                    flavors = ["MomentumArray4D" if mom else "VectorArray4D"]
                    if ctx.tier == "thorough":
                        flavors = ["MomentumArray4D", "VectorArray4D", "MomentumObject3D", "VectorNumpy2D"]
                    for cn in flavors:
                        cases.append((f + extra, R, nv, cn))
    jobs = min(int(os.environ.get("VERIF_JOBS", "16")), os.cpu_count() or 1)
    chunks = [(str(ctx.repo), cases[i::jobs * 2]) for i in range(jobs * 2)]
    total = 0
    bad = []
    with multiprocessing.get_context("fork").Pool(jobs) as pool:
        for n, b in pool.imap_unordered(_awk_worker, chunks):
            total += n
            bad.extend(b)
    c = ctx.rule_counts.setdefault("C03.wrap-awkward", [0, 0])
    c[0] += total - len(bad)
    c[1] += total - len(bad)
    ctx.constructs.add(f"C03.wrap-awkward::<{len(fsets)} field spelling sets x {len(shapes)} shapes>")
    for fields, R, nv, cn, msg, got, exp in bad:
        ctx.ob("C03.wrap-awkward", f"VectorAwkward._wrap_result[fields={','.join(fields)}; returns={[str(r) for r in R]}; num_vecargs={nv}; cls={cn}]",
               False, msg, {"got": got, "expected": exp}, "src/vector/backends/awkward.py")
    ctx.samples.append({"rule": "C03.wrap-awkward", "construct": "fields=px,py,pz,E,charge; returns=[AzimuthalRhoPhi]; num_vecargs=1",
                        "verdict": "see findings", "detail": repr(wr.summarize_awkward(W, ["px", "py", "pz", "E", "charge"], ["AzimuthalRhoPhi"], 1, "MomentumArray4D")[:4])})
    ctx.analysed["wrap_cases_awkward"] = total
    ctx.decline("NumPy/Awkward broadcasting of scalars and single objects against arrays; ak.transform / ak.zip preserving list structure and option types")
    ctx.decline("handler selection for mixed-backend operands: decided under C05")


_KERNEL_NODES = {
    "FunctionDef", "arguments", "arg", "Return", "Assign", "Expr", "Name", "Load", "Store", "Constant", "Tuple", "Attribute", "Call", "keyword",
    "BinOp", "Add", "Sub", "Mult", "Div", "Mod", "Pow", "BitAnd", "BitOr", "UnaryOp", "USub", "UAdd", "Compare", "Eq", "NotEq", "Lt", "Gt", "LtE", "GtE",
    "Starred",  # only `*name` with name bound once to a tuple display in the same function (checked below): the expansion is the same for every backend
}
_WHY = {
    "AugAssign": "an augmented assignment mutates a NumPy/Awkward operand in place where it rebinds a Python number",
    "Invert": "~ is logical negation on boolean arrays but integer complement on a Python bool (~True == -2, truthy)",
    "Not": "`not` takes the truth value of a whole array (ambiguous / wrong element-wise)",
    "BoolOp": "`and`/`or` take the truth value of a whole array instead of combining element-wise",
    "IfExp": "a conditional expression branches on the truth value of a whole array",
    "If": "an if statement branches on the truth value of a whole array",
    "For": "a loop over values is not element-wise on arrays",
    "While": "a loop over values is not element-wise on arrays",
    "Subscript": "indexing means different things for numbers, arrays and records",
}


def _duck_typed_kernels(ctx, rule="C03.duck-typed-kernels"):
    """every compute kernel reachable from a dispatch table stays in the duck-typed fragment the package documents"""
    import types

    from ..loader import fn_ast, fn_env, fn_where, link
    from ..entries import all_entries

    ctx.rule(rule,
             "every function reachable from a dispatch_map entry uses only constructs that mean the same for Python numbers, NumPy arrays and Awkward arrays "
             "(the restriction stated in vector/_compute/*/__init__.py): assignments to plain names and one return; + - * / % ** & |, unary minus, single "
             "comparisons, calls with the values as arguments; no augmented assignment, ~, not, and/or, conditional, chained comparison, loop or indexing")
    L = link(ctx.repo)
    seen, todo = set(), []
    for e in all_entries(L):
        if e.fn not in seen:
            seen.add(e.fn)
            todo.append(e.fn)
    n = 0
    while todo:
        fn = todo.pop()
        node = fn_ast(fn)
        env = fn_env(fn)
        n += 1
        bad = []
        for sub in ast.walk(node):
            k = type(sub).__name__
            if k not in _KERNEL_NODES:
                bad.append((getattr(sub, "lineno", node.lineno), k, _WHY.get(k, "outside the duck-typed fragment")))
            elif isinstance(sub, ast.Compare) and len(sub.ops) != 1:
                bad.append((sub.lineno, "chained comparison", "a < b < c is `and` of two comparisons: truth value of a whole array"))
            elif isinstance(sub, ast.Assign) and not all(isinstance(t, ast.Name) or (isinstance(t, ast.Tuple) and all(isinstance(x, ast.Name) for x in t.elts)) for t in sub.targets):
                bad.append((sub.lineno, "store into an attribute/item", "kernels only bind local names"))
            elif isinstance(sub, ast.Starred):
                binds = [st.value for st in ast.walk(node) if isinstance(st, ast.Assign) and any(isinstance(t, ast.Name) and isinstance(sub.value, ast.Name) and t.id == sub.value.id for t in st.targets)]
                if not (isinstance(sub.value, ast.Name) and len(binds) == 1 and isinstance(binds[0], ast.Tuple)):
                    bad.append((sub.lineno, "star-expansion of a value", "*x iterates over x: element-wise only for a tuple built in the kernel itself"))
            elif isinstance(sub, ast.Expr) and not (isinstance(sub.value, ast.Constant) and isinstance(sub.value.value, str)):
                bad.append((sub.lineno, "expression statement", "a call evaluated for its side effect"))
            if isinstance(sub, ast.Call):
                f = sub.func
                tgt = None
                try:
                    if isinstance(f, ast.Name):
                        tgt = env.get(f.id)
                    elif isinstance(f, ast.Attribute) and isinstance(f.value, ast.Name):
                        base = env.get(f.value.id)
                        tgt = getattr(base, f.attr, None) if base is not None else None
                except Exception:  # noqa: BLE001
                    tgt = None
                if isinstance(tgt, types.FunctionType) and tgt not in seen and (tgt.__module__ or "").startswith("vector._compute"):
                    seen.add(tgt)
                    todo.append(tgt)
        name = f"{(fn.__module__ or '').replace('vector._compute.', '')}.{fn.__qualname__}"
        ctx.ob(rule, name, not bad,
               "; ".join(f"line {ln}: {k} - {why}" for ln, k, why in bad[:3]), {"constructs": [[ln, k] for ln, k, _ in bad]}, fn_where(fn))
    ctx.anchor("compute kernels examined", n, 2400)


_LIKE_FILLS = {"ak.full_like", "ak.zeros_like", "ak.ones_like", "awkward.full_like", "awkward.zeros_like", "awkward.ones_like",
               "numpy.full_like", "numpy.zeros_like", "numpy.ones_like", "numpy.empty_like", "np.full_like", "np.zeros_like", "np.ones_like", "np.empty_like"}


def _value_preserving_fill(ctx):
    """a scalar result component (an imputed keyword coordinate, a constant) is expanded to the array's shape without being cast"""
    ctx.rule("C03.value-preserving-fill",
             "the _wrap_result of every backend builds array components from scalar results only with shape-broadcasting calls (ak.broadcast_arrays, "
             "numpy broadcasting on assignment into numpy.empty with the component's own dtype): a *_like fill (ak.full_like, numpy.full_like, zeros_like, "
             "ones_like, empty_like) takes the dtype of another component, so a float coordinate given for an integer-typed array would be truncated "
             "where the object backend keeps it")
    n = 0
    for relp in ("src/vector/backends/awkward.py", "src/vector/backends/numpy.py", "src/vector/backends/object.py", "src/vector/backends/sympy.py"):
        mf = facts(relp, ctx.repo)
        for cname, cnode in mf.classes.items():
            for st in cnode.body:
                if isinstance(st, ast.FunctionDef) and st.name == "_wrap_result":
                    n += 1
                    bad = [(c.lineno, f"{unparse(c.func)}(template, value) casts the value to the template's dtype")
                           for c in ast.walk(st) if isinstance(c, ast.Call) and unparse(c.func) in _LIKE_FILLS]
                    for sub in ast.walk(st):
                        # ak.broadcast_arrays(first, x)[k]: the broadcast *value* is the member at x's own position
                        if isinstance(sub, ast.Subscript) and isinstance(sub.value, ast.Call) and unparse(sub.value.func) in ("ak.broadcast_arrays", "awkward.broadcast_arrays"):
                            args = [unparse(a) for a in sub.value.args]
                            idx = sub.slice.value if isinstance(sub.slice, ast.Constant) else None
                            if not (isinstance(idx, int) and 0 <= idx < len(args) and args[idx] != "first" and "first" in args):
                                bad.append((sub.lineno, f"`{unparse(sub)[:70]}` selects the reference array, not the broadcast value"))
                        # a record / scalar result is promoted to a length-1 array with ak.Array([x]) (or a length-1 slice of the record's layout)
                        if isinstance(sub, ast.Call) and unparse(sub.func) in ("ak.Array", "awkward.Array") and len(sub.args) == 1:
                            a0 = sub.args[0]
                            ok_form = (isinstance(a0, ast.List) and len(a0.elts) == 1) or "layout" in unparse(a0)
                            if not ok_form:
                                bad.append((sub.lineno, f"`{unparse(sub)[:70]}`: a non-array result is promoted with ak.Array([x]) so that an array-valued x keeps its own length as one more level"))
                    ctx.ob("C03.value-preserving-fill", f"{cname}._wrap_result", not bad,
                           "; ".join(f"line {ln}: {why}" for ln, why in bad[:3]),
                           {"calls": bad}, f"{relp}:{st.lineno}")
    ctx.anchor("_wrap_result implementations", n, 10)


def _scalar_promotion(ctx, W):
    """NumPy backend: a scalar result component becomes a float64 array whatever the dtypes of the other components"""
    ctx.rule("C03.scalar-promotion",
             "_toarrays turns every non-array member x of a result tuple into numpy.array([x], numpy.float64) - the dtype is the constant float64, not one "
             "derived from the other members - and passes arrays through unchanged; a tuple comes back as a tuple, a single value as a single array")
    from ..peval import External, Undecided

    env = W.module_env("vector.backends.numpy")
    fn = env.get("_toarrays")
    if not isinstance(fn, FuncVal):
        raise AnalysisError("anchor vector.backends.numpy._toarrays missing")
    cases = {
        "(int64 array, scalar)": [Opaque("a_int", "ndarray"), Opaque("s", "real")],
        "(scalar, float32 array, scalar)": [Opaque("s1", "real"), Opaque("a_f32", "ndarray"), Opaque("s2", "real")],
        "(scalar, scalar)": [Opaque("s1", "real"), Opaque("s2", "real")],
    }
    for label, members in cases.items():
        made = []

        def m_array(I, args, kwargs, made=made):
            made.append((args, kwargs))
            return Opaque(("numpy.array", len(made) - 1), "ndarray")

        oa = {m.tag: {"dtype": Opaque("dtype_of_" + str(m.tag), "notnone"), "shape": (3,)} for m in members if m.kind == "ndarray"}
        I = Interp(W, ext_models={"numpy.array": m_array, "numpy.asarray": m_array, "numpy.full": m_array}, opaque_attrs=oa)
        msg = ""
        try:
            r = I.call_function(fn, [tuple(members)], {})
        except PyRaise as e:
            msg = f"raises {e.exc}"
            r = None
        except Undecided as e:
            raise AnalysisError(f"_toarrays could not be interpreted on {label}: {e}") from None
        if not msg:
            if not isinstance(r, tuple) or len(r) != len(members):
                msg = f"returns {r!r}"
            else:
                k = 0
                for m, out in zip(members, r):
                    if m.kind == "ndarray":
                        if out is not m:
                            msg = f"array member {m!r} is not passed through ({out!r})"
                            break
                        continue
                    if k >= len(made):
                        msg = f"scalar member {m!r} is not converted with numpy.array"
                        break
                    args, kwargs = made[k]
                    k += 1
                    dt = kwargs.get("dtype", args[1] if len(args) > 1 else None)
                    val = args[0] if args else None
                    if not (isinstance(val, list) and len(val) == 1 and val[0] is m):
                        msg = f"scalar member {m!r} becomes numpy.array({val!r}, ...)"
                        break
                    if not (isinstance(dt, External) and dt.name == "numpy.float64"):
                        msg = f"scalar member {m!r} is given dtype {dt!r}: a value such as 2.5 is truncated when the other members are integer-typed; expected the constant numpy.float64"
                        break
        ctx.ob("C03.scalar-promotion", f"_toarrays{label}", not msg, msg, None, "src/vector/backends/numpy.py")
