"""C04 — coordinate conversions and dimension changes lose nothing."""
from __future__ import annotations

import itertools

from .. import ir, nf
from ..algebra import Kernels
from ..core import AnalysisError
from ..entries import entries_of
from ..loader import fn_where, link
from ..peval import BUILTINS, ClassVal, External, FuncVal, Inst, Interp, Opaque, PyRaise, Undecided, World

LEVEL = "other"
EXPLANATION = (
    "Bit-for-bit identity when already stored: for every accessor module (x, y, rho, phi, z, theta, eta, t, tau) "
    "and every signature that stores that coordinate, the inlined table entry is exactly its parameter (no "
    "arithmetic).  to_<system>(): each of the 40 methods is interpreted abstractly for 2D/3D/4D operands and every "
    "keyword choice: it wraps (type(self), values, classes, 1) where the classes are those the method name spells, "
    "each value is the accessor dispatch of the same-named coordinate when self has that group, and otherwise "
    "exactly the keyword passed for it (or 0.0); momentum spellings equal the geometric method with the synonym "
    "keyword mapping.  to_Vector2D/3D/4D, to_2D/3D/4D, like: interpreted for every keyword combination up to pairs: "
    "retained groups are self's own stored element tuples with their own coordinate classes, the imputed value is "
    "the single keyword given (typed Z for z|pz, Theta, Eta, T for t|e|E|energy, Tau for tau|m|M|mass) or 0.0, two "
    "keywords of one group raise TypeError, same-dimension conversion returns self, like() picks by the other's "
    "dimension.  Round trips x,y<->rho,phi and z<->eta compose to the identity in the ring normal form with the "
    "named inverse-function rules.  Not decided: round trips through theta and tau (tan∘arccos, branch on t>=0), "
    "phi from arctan2 of converted coordinates, float rounding."
)

AZ = {"xy": ("AzimuthalXY", ("x", "y")), "rhophi": ("AzimuthalRhoPhi", ("rho", "phi"))}
LO = {"z": ("LongitudinalZ", ("z",)), "theta": ("LongitudinalTheta", ("theta",)), "eta": ("LongitudinalEta", ("eta",))}
TE = {"t": ("TemporalT", ("t",)), "tau": ("TemporalTau", ("tau",))}
GROUP_MOD = {"x": "planar", "y": "planar", "rho": "planar", "phi": "planar", "z": "spatial", "theta": "spatial", "eta": "spatial", "t": "lorentz", "tau": "lorentz"}
MOM_NAME = {"xy": "pxpy", "rhophi": "ptphi", "z": "pz", "theta": "theta", "eta": "eta", "t": "energy", "tau": "mass"}
MOM_KW = {"z": "pz", "theta": "theta", "eta": "eta", "t": "energy", "tau": "mass"}
L_KW = {"z": "LongitudinalZ", "pz": "LongitudinalZ", "theta": "LongitudinalTheta", "eta": "LongitudinalEta"}
T_KW = {"t": "TemporalT", "e": "TemporalT", "E": "TemporalT", "energy": "TemporalT", "tau": "TemporalTau", "m": "TemporalTau", "M": "TemporalTau", "mass": "TemporalTau"}


class Recorder:
    def __init__(self):
        self.calls = []

    def __call__(self, I, args, kwargs, node):
        # _wrap_result(cls=..., result=..., returns=..., num_vecargs=...) means the same as the positional call: record it positionally
        from ..dispatchers import _param_names
        names = _param_names("_wrap_result")
        if kwargs and names is not None and set(kwargs) <= set(names[len(args):]):
            args = list(args)
            kwargs = dict(kwargs)
            for nm in names[len(args):]:
                if nm not in kwargs:
                    break
                args.append(kwargs.pop(nm))
        self.calls.append((args, kwargs))
        return Opaque(("wrapped", len(self.calls) - 1), "notnone")


def abstract_vector(W, dim, flavor="Vector", az="XY", lo="Z", te="T"):
    cls = W.classes[f"{flavor}Object{dim}D"]
    self = Inst(cls, {"__name__": "self"}, origin="abstract")
    a = Inst(W.classes[f"AzimuthalObject{az}"], {"__name__": "self.azimuthal"}, origin="abstract")
    for f in AZ[az.lower() if az != "RhoPhi" else "rhophi"][1]:
        a.attrs[f] = Opaque(f"self.azimuthal.{f}", "real")
    self.attrs["azimuthal"] = a
    if dim >= 3:
        l = Inst(W.classes[f"LongitudinalObject{lo}"], {"__name__": "self.longitudinal"}, origin="abstract")
        for f in LO[lo.lower()][1]:
            l.attrs[f] = Opaque(f"self.longitudinal.{f}", "real")
        self.attrs["longitudinal"] = l
    if dim >= 4:
        t = Inst(W.classes[f"TemporalObject{te}"], {"__name__": "self.temporal"}, origin="abstract")
        for f in TE[te.lower()][1]:
            t.attrs[f] = Opaque(f"self.temporal.{f}", "real")
        self.attrs["temporal"] = t
    return self


def val_text(v, self):
    if isinstance(v, Opaque):
        t = v.tag
        if isinstance(t, tuple) and t and t[0] == "extcall":
            ok = len(t[2]) == 1 and t[2][0] is self and not t[3]
            return t[1] + ("(self)" if ok else "(<other args>)")
        return str(t)
    return repr(v)


def cls_text(c):
    if c is None:
        return None
    if isinstance(c, ClassVal):
        return c.name
    return repr(c)


def run(ctx):
    L = link(ctx.repo)
    W = World(ctx.repo)
    ctx.rule("C04.identity-when-stored", "the accessor's entry for a signature that stores the coordinate is exactly the stored parameter")
    ctx.rule("C04.to-system", "to_<system>() wraps accessor dispatches of the named coordinates (keyword value or 0.0 for groups self lacks) with the classes the name spells")
    ctx.rule("C04.to-system-momentum", "momentum-spelled to_* methods equal the geometric method with keywords mapped through the synonym table")
    ctx.rule("C04.dimension-change", "to_Vector2D/3D/4D keep self's stored element tuples and classes, impute exactly the single keyword given (typed by its name) or 0.0, reject two keywords of one group, and return self for the same dimension")
    ctx.rule("C04.aliases", "to_2D/3D/4D forward to to_Vector2D/3D/4D with the same keywords; like() converts to the other's dimension")
    ctx.rule("C04.round-trip", "x,y <-> rho,phi and z <-> eta conversions compose to the identity (ring normal form with named inverse-function rules)")

    # ---- identity when stored -----------------------------------------------------------------
    inl = ir.Inliner()
    n_id = 0
    for g, names in (("planar", ("x", "y", "rho", "phi")), ("spatial", ("z", "theta", "eta")), ("lorentz", ("t", "tau"))):
        for nm in names:
            for e in entries_of(L, f"vector._compute.{g}.{nm}"):
                kinds = e.kinds[0]
                if nm not in kinds:
                    continue
                n_id += 1
                node = inl.inline(e.fn, e.args())
                want = ir.param(f"{nm}1")
                ctx.ob("C04.identity-when-stored", e.name, node is want, f"entry computes `{ir.show(node)[:120]}` instead of returning the stored {nm}",
                       None, fn_where(e.fn), sample=ir.show(node))
    ctx.anchor("stored-coordinate accessor entries", n_id, 22)

    # ---- to_<system> -----------------------------------------------------------------------------
    rec = Recorder()
    BUILTINS["__record_wrap__"] = rec
    n_to = 0
    for azk, (azc, azn) in AZ.items():
        for lok in (None, "z", "theta", "eta"):
            for tek in ((None,) if lok is None else (None, "t", "tau")):
                gname = "to_" + azk + (lok or "") + (tek or "")
                mname = "to_" + MOM_NAME[azk] + (MOM_NAME[lok] if lok else "") + (MOM_NAME[tek] if tek else "")
                classes = [azc] + ([LO[lok][0]] if lok else []) + ([TE[tek][0]] if tek else [])
                names = list(azn) + ([lok] if lok else []) + ([tek] if tek else [])
                want_returns = classes + ([None] if len(classes) < 3 else [])
                for dim in (2, 3, 4):
                    for flavor in ("Vector", "Momentum"):
                        kwnames = [k for k in (lok, tek) if k]
                        for given in itertools.chain.from_iterable(itertools.combinations(kwnames, r) for r in range(len(kwnames) + 1)):
                            for meth, kwmap in ((gname, {k: k for k in kwnames}), (mname, {k: MOM_KW[k] for k in kwnames})):
                                self = abstract_vector(W, dim, flavor)
                                self.attrs["_wrap_result"] = ("builtin", "__record_wrap__")
                                rec.calls.clear()
                                I = Interp(W)
                                fn, cv = W.find_method(self.cls.name, meth)
                                if fn is None:
                                    raise AnalysisError(f"anchor Vector.{meth} missing")
                                kw = {kwmap[k]: Opaque(f"kw_{k}", "real") for k in given}
                                cname = f"Vector.{meth}[{dim}D {flavor}; given={','.join(kwmap[k] for k in given) or '-'}]"
                                rule = "C04.to-system" if meth == gname else "C04.to-system-momentum"
                                n_to += 1
                                try:
                                    I.call_function(FuncVal(fn, cv.module, bound=self, owner=cv), [], kw)
                                except (PyRaise, Undecided) as e:
                                    ctx.ob(rule, cname, False, f"{type(e).__name__}: {e}", None, f"src/vector/_methods.py:{fn.lineno}")
                                    continue
                                if len(rec.calls) != 1:
                                    ctx.ob(rule, cname, False, f"{len(rec.calls)} _wrap_result calls", None, f"src/vector/_methods.py:{fn.lineno}")
                                    continue
                                (a, kws) = rec.calls[0]
                                ok = len(a) == 4 and not kws
                                msg = "unexpected _wrap_result arguments"
                                if ok:
                                    cls_arg, values, returns, nv = a
                                    got_vals = [val_text(v, self) for v in values]
                                    want_vals = []
                                    for nm in names:
                                        grp_dim = {"planar": 2, "spatial": 3, "lorentz": 4}[GROUP_MOD[nm]]
                                        if grp_dim <= dim:
                                            want_vals.append(f"vector._compute.{GROUP_MOD[nm]}.{nm}.dispatch(self)")
                                        elif nm in given:
                                            want_vals.append(f"kw_{nm}")
                                        else:
                                            want_vals.append("0.0")
                                    got_ret = [cls_text(r) for r in returns]
                                    ok = cls_arg == self.cls and got_vals == want_vals and got_ret == want_returns and nv == 1
                                    msg = f"wraps (cls={cls_arg!r}, values={got_vals}, returns={got_ret}, num_vecargs={nv}); expected ({self.cls!r}, {want_vals}, {want_returns}, 1)"
                                ctx.ob(rule, cname, ok, msg, None, f"src/vector/_methods.py:{fn.lineno}",
                                       sample={"method": meth, "dim": dim, "values": want_vals if ok else None})
    ctx.anchor("to_<system> cases", n_to, 40 * 6)

    # ---- dimension changes ----------------------------------------------------------------------------
    systems = {2: [("XY",), ("RhoPhi",)], 3: [("XY", "Theta"), ("RhoPhi", "Eta"), ("XY", "Z")], 4: [("RhoPhi", "Z", "Tau"), ("XY", "Eta", "T")]}
    lkw = list(L_KW)
    tkw = list(T_KW)
    n_dc = 0
    for dim, syss in systems.items():
        for sys_ in syss:
            for target in (2, 3, 4):
                meth = f"to_Vector{target}D"
                allowed = []
                if dim == 2 and target >= 3:
                    allowed += lkw
                if dim <= 3 and target == 4:
                    allowed += tkw
                combos = [()] + [(k,) for k in allowed] + [c for c in itertools.combinations(allowed, 2)]
                for given in combos:
                    for via in ("direct", "alias"):
                        self = abstract_vector(W, dim, "Momentum", *sys_)
                        self.attrs["_wrap_result"] = ("builtin", "__record_wrap__")
                        rec.calls.clear()
                        I = Interp(W)
                        mname = meth if via == "direct" else f"to_{target}D"
                        fn, cv = W.find_method(self.cls.name, mname)
                        if fn is None:
                            raise AnalysisError(f"anchor {mname} missing")
                        kw = {k: Opaque(f"kw_{k}", "real") for k in given}
                        cname = f"Vector{dim}D.{mname}[{'/'.join(sys_)}; given={','.join(given) or '-'}]"
                        rule = "C04.dimension-change" if via == "direct" else "C04.aliases"
                        n_dc += 1
                        gl = [k for k in given if k in L_KW]
                        gt = [k for k in given if k in T_KW]
                        try:
                            r = I.call_function(FuncVal(fn, cv.module, bound=self, owner=cv), [], kw)
                            outcome = "ok"
                        except PyRaise as e:
                            outcome = e.exc
                        except Undecided as e:
                            ctx.ob(rule, cname, False, f"undecided: {e}")
                            continue
                        if len(gl) > 1 or len(gt) > 1:
                            ctx.ob(rule, cname, outcome == "TypeError", f"two keywords of one group: outcome {outcome}, expected TypeError", None, f"src/vector/_methods.py:{fn.lineno}")
                            continue
                        if outcome != "ok":
                            ctx.ob(rule, cname, False, f"raises {outcome}", None, f"src/vector/_methods.py:{fn.lineno}")
                            continue
                        if target == dim:
                            ctx.ob(rule, cname, r is self and not rec.calls, "same-dimension conversion must return self", None, f"src/vector/_methods.py:{fn.lineno}")
                            continue
                        if len(rec.calls) != 1:
                            ctx.ob(rule, cname, False, f"{len(rec.calls)} _wrap_result calls")
                            continue
                        cls_arg, values, returns, nv = rec.calls[0][0]
                        stored = [f"self.azimuthal.{f}" for f in AZ["xy" if sys_[0] == "XY" else "rhophi"][1]]
                        classes = [f"Azimuthal{sys_[0]}"]
                        if dim >= 3 and target >= 3:
                            stored += [f"self.longitudinal.{LO[sys_[1].lower()][1][0]}"]
                            classes += [f"Longitudinal{sys_[1]}"]
                        if dim == 2 and target >= 3:
                            stored += [f"kw_{gl[0]}" if gl else "0.0"]
                            classes += [L_KW[gl[0]] if gl else "LongitudinalZ"]
                        if target == 4:
                            stored += [f"kw_{gt[0]}" if gt else "0.0"]
                            classes += [T_KW[gt[0]] if gt else "TemporalT"]
                        want_ret = classes + ([None] if target < 4 else [])
                        got_vals = [val_text(v, self) for v in values]
                        got_ret = [cls_text(c) for c in returns]
                        ok = cls_arg == self.cls and got_vals == stored and got_ret == want_ret and nv == 1
                        ctx.ob(rule, cname, ok, f"wraps (values={got_vals}, returns={got_ret}); expected ({stored}, {want_ret})", None,
                               f"src/vector/_methods.py:{fn.lineno}", sample={"values": stored, "returns": want_ret})
    ctx.anchor("dimension-change cases", n_dc, 300)
    # like
    for dim in (2, 3, 4):
        for od in (2, 3, 4):
            self = abstract_vector(W, dim)
            other = abstract_vector(W, od, "Momentum")
            calls = []
            for t in (2, 3, 4):
                BUILTINS[f"__mark{t}__"] = (lambda t: (lambda I, a, k, n: calls.append(t) or Opaque(("converted", t))))(t)
                self.attrs[f"to_Vector{t}D"] = ("builtin", f"__mark{t}__")
            I = Interp(W)
            fn, cv = W.find_method(self.cls.name, "like")
            I.call_function(FuncVal(fn, cv.module, bound=self, owner=cv), [other], {})
            ctx.ob("C04.aliases", f"Vector{dim}D.like(Vector{od}D)", calls == [od], f"calls to_Vector{calls}D, expected to_Vector{od}D", None, f"src/vector/_methods.py:{fn.lineno}")

    # ---- round trips -------------------------------------------------------------------------------------
    K = Kernels(L)
    x, y, z, r, p, eta = (ir.param(n) for n in ("x", "y", "z", "r", "p", "eta"))
    ring = nf.Ring(rules=["trig_arctan2"])
    rho_xy = K("planar.rho", "xy", x, y)[0]
    phi_xy = K("planar.phi", "xy", x, y)[0]
    for nm, got, want in (
        ("x(rho(x,y), phi(x,y)) == x", K("planar.x", "rhophi", rho_xy, phi_xy)[0], x),
        ("y(rho(x,y), phi(x,y)) == y", K("planar.y", "rhophi", rho_xy, phi_xy)[0], y),
    ):
        ctx.ob("C04.round-trip", nm, ring.of(got).eq(ring.of(want)), "does not normalise to the identity (rule trig_arctan2)", None, K.where("planar.x", "rhophi"))
    ring = nf.Ring(rules=["sqrt_pos"])
    ring.positive.add(ring.atom(("param", "r")))
    got = K("planar.rho", "xy", K("planar.x", "rhophi", r, p)[0], K("planar.y", "rhophi", r, p)[0])[0]
    ctx.ob("C04.round-trip", "rho(x(r,p), y(r,p)) == r  (r >= 0)", ring.of(got).eq(ring.of(r)), "does not normalise to the identity", None, K.where("planar.rho", "xy"))
    ring = nf.Ring(rules=["nan_to_num_id", "sinh_arcsinh"])
    got = K("spatial.z", "xy_eta", x, y, K("spatial.eta", "xy_z", x, y, z)[0])[0]
    ctx.ob("C04.round-trip", "z(x,y, eta(x,y,z)) == z", ring.of(got).eq(ring.of(z)), "does not normalise to the identity (rules nan_to_num_id, sinh_arcsinh)", None, K.where("spatial.z", "xy_eta"))
    got = K("spatial.z", "rhophi_eta", r, p, K("spatial.eta", "rhophi_z", r, p, z)[0])[0]
    ctx.ob("C04.round-trip", "z(r,p, eta(r,p,z)) == z", ring.of(got).eq(ring.of(z)), "does not normalise to the identity", None, K.where("spatial.z", "rhophi_eta"))
    _round_trip_systems(ctx, L)
    from .. import singular

    ctx.rule("C04.singular-points",
             "the 9 coordinate accessors keep their conventions at singular stored points (zero vector, on-axis, t = 0, tau = 0): a zero vector converts to zero coordinates, not NaN "
             "(tables/singular.json, frozen from the pinned tree; IEEE point semantics of the inlined IR)")
    singular.obligations(ctx, L, "C04.singular-points", set(ACCESSORS))
    ctx.decline("float rounding of round trips; element-wise behaviour inside NumPy/Awkward wrappers (C03)")


ACCESSORS = {"planar.x": "x", "planar.y": "y", "planar.rho": "rho", "planar.phi": "phi", "spatial.z": "z", "spatial.theta": "theta",
             "spatial.eta": "eta", "lorentz.t": "t", "lorentz.tau": "tau"}


def _round_trip_systems(ctx, L):
    """to_T() then to_S() is the identity for every pair of systems: every accessor entry, applied to S-stored coordinates
    written by their documented definitions in Cartesian generators, denotes the documented coordinate of those generators"""
    from .. import denote

    ctx.rule("C04.round-trip-systems",
             "for each of the 9 coordinate accessors c and every storage system S: (a) the all-Cartesian entry of c is the documented definition of c "
             "(the one used to write stored coordinates in generators); (b) c's entry for S, applied to S's stored coordinates written in Cartesian "
             "generators (tau-stored operands: X, Y, Z, TAU > 0), has the same normal form as the Cartesian entry on the generators.  (a)+(b) for the "
             "accessors of T on S and of S on T compose to: v.to_T().to_S() returns v's stored coordinates on the representable domain.  HELD only by "
             "proof; VIOLATED only with a concrete differing point; otherwise undecided (listed)")
    D = denote.Denoter(L)
    n = 0
    for short, kind in ACCESSORS.items():
        ents = {e.signame: e for e in entries_of(L, "vector._compute." + short)}
        cart = next((e for e in ents.values() if all(k in ("x", "y", "z", "t") for ks in e.kinds for k in ks)), None)
        if cart is None:
            raise AnalysisError(f"anchor: {short} has no all-Cartesian entry")
        gens = [denote.generators(1)]
        ring = denote.make_ring(gens, 0)
        _, nodes, _ = D.denote(cart, gens, [])
        want = denote.stored_in_generators(kind, gens[0])
        ok = ring.of(nodes[0]).eq(ring.of(want))
        n += 1
        ctx.ob("C04.round-trip-systems", f"{cart.name} is the documented {kind}", ok,
               f"the Cartesian entry computes {ir.show(nodes[0])[:160]}, the documented definition is {ir.show(want)[:160]}", None, fn_where(cart.fn))
    undecided = []
    for rec in denote.entry_agreement(L, set(ACCESSORS)):
        n += 1
        if rec.status == "undecided":
            undecided.append(rec.construct)
            continue
        ctx.ob("C04.round-trip-systems", rec.construct, rec.status == "proved", rec.message, rec.witness, rec.where, sample=rec.sample)
    ctx.anchor("accessor entries in the round-trip rule", n, 50)
    ctx.analysed["round_trip_undecided"] = undecided
    if undecided:
        ctx.decline("C04.round-trip-systems left undecided: " + ", ".join(undecided))
