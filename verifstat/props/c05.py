"""C05 — result backend, flavor, dimension and coordinate system follow the stated rules (finite lattice, exhaustive)."""
from __future__ import annotations

import ast
import itertools

from .. import wrappers as wr
from ..core import AnalysisError
from ..dispatchers import dispatch_summary
from ..entries import entries_of
from ..loader import facts, link, literal, unparse
from ..methods import class_methods
from ..peval import ClassVal, Inst, Interp, Opaque, PyRaise, World
from ..ufuncs import dunder_obligations, table_obligations

LEVEL = "other"
EXPLANATION = (
    "The lattice is finite and enumerated from the source.  Tables: every compute module's key set is the full "
    "product of coordinate systems for its operand dimensions (x 12 Euler orders) and every declared `returns` "
    "shape is one all wrappers accept, with the documented result kind per module (scalar float/bool, vector of "
    "the first operand's groups; 3D for cross and to_beta3).  Methods: every public method of Planar/Spatial/"
    "Lorentz reaches an existing table with as many arguments as its dispatch() takes; dot/add/subtract resolve "
    "through _compute_module_of, interpreted over the 9 dimension pairs.  Dimension discipline: the nine "
    "arithmetic/comparison operations of each class pass _maybe_same_dimension_error(self, other, ...) before "
    "dispatch and that helper raises TypeError exactly for unequal dimensions; cross tests both dimensions; the "
    "delta* operations accept 3D/4D operands.  Backend precedence: _handler_of, interpreted on every ordered pair "
    "of backend x flavor x dimension operand classes, returns the operand of strictly higher priority in "
    "object < numpy < sympy < awkward (ties keep the first), and each dispatcher feeds it exactly the counted "
    "operands (rotate_axis: only the rotated vector).  Flavor: _flavor_of returns a momentum class iff some counted "
    "operand is a momentum vector, of a backend the chosen handler can instantiate; the 30 classes' "
    "ProjectionClass2D/3D/4D, GenericClass, MomentumClass links have the named dimension/flavor/backend/kind.  "
    "Operators: the (ufunc -> method) tables of the four backends equal the documented map and dunder methods "
    "forward to the matching ufunc with operands in order.  Not decided: type(result) as produced by NumPy view "
    "casting and Awkward behavior lookup at run time."
)

RESULT_KIND = {
    # module short name -> (scalar kind | 'vec', number of coordinate classes, trailing None)
    "bool": ["equal", "not_equal", "isclose", "is_parallel", "is_antiparallel", "is_perpendicular", "is_timelike", "is_lightlike", "is_spacelike"],
    "project3D": ["spatial.cross", "lorentz.to_beta3"],
}
GROUPS = {"planar": 1, "spatial": 2, "lorentz": 3}
SAME_DIM_OPS = ["add", "subtract", "dot", "equal", "not_equal", "isclose", "is_parallel", "is_antiparallel", "is_perpendicular"]
PRIORITY = ["vector.backends.object", "vector.backends.numpy", "vector.backends.sympy", "vector.backends.awkward"]
BACKEND_CLASSES = {
    "object": "{f}Object{d}D", "numpy": "{f}Numpy{d}D", "sympy": "{f}Sympy{d}D", "awkward": "{f}Array{d}D", "awkward-record": "{f}Record{d}D",
}
BACKEND_OF_CLASS = {"Object": "object", "Numpy": "numpy", "Sympy": "sympy", "Array": "awkward", "Record": "awkward", "Awkward": "awkward"}


def backend_of(cname):
    for k, v in BACKEND_OF_CLASS.items():
        if k in cname:
            return v
    return None


def run(ctx):
    L = link(ctx.repo)
    W = World(ctx.repo)
    for r, d in {
        "C05.table": "key set = full product of coordinate systems (x extra keys); every `returns` is a shape all wrappers accept and has the module's documented result kind",
        "C05.method-reach": "every dispatch site of a public Planar/Spatial/Lorentz method names an existing compute module and passes as many arguments as its dispatch() declares",
        "C05.own-group": "a dispatch site in a Planar/Spatial/Lorentz method uses the compute group of its own class whenever that group has a module of that name (a 3D method never silently computes the 2D quantity); only methods whose name ends in 2D/3D/4D use the planar/spatial/lorentz group that suffix names",
        "C05.same-name": "a Planar/Spatial/Lorentz method whose name is the name of a compute module of its group dispatches to that module (Spatial.deltaeta -> spatial.deltaeta), not to a sibling with the same dispatch signature",
        "C05.module-of": "_compute_module_of(one, two) returns the module of the smaller dimension for each of the 9 dimension pairs, and that module has add/subtract/dot",
        "C05.same-dimension": "the nine arithmetic/comparison methods call _maybe_same_dimension_error(self, other, ...) on every path before dispatch; the helper raises TypeError iff dimensions differ; dim() maps Vector2D/3D/4D to 2/3/4",
        "C05.dimension-guards": "cross requires two 3D operands; deltaangle/deltaeta/deltaR/deltaR2 require a 3D or 4D other; deltaRapidityPhi(2) require a 4D other; boost_p4 / boostCM_of_p4 require a 4D and boost_beta3 / boostCM_of_beta3 a 3D operand, tested on the dimension (a mix-in isinstance test would let a 4D vector pass for a 3D one)",
        "C05.defaults-agree": "a method of Planar/Spatial/Lorentz that the VectorProtocol* classes declare has the same parameters and default values as the protocol (the documented signature)",
        "C05.handler": "_handler_of returns the operand whose backend has strictly higher priority (object < numpy < sympy < awkward), ties keep the first; _handler_priority is that order",
        "C05.counted-operands": "each dispatcher passes to _handler_of/_flavor_of exactly the counted operands (all vector operands; rotate_axis only the rotated vector)",
        "C05.flavor": "_flavor_of returns handler.MomentumClass iff some operand is a Momentum vector, else GenericClass, and the class belongs to a backend the handler chosen by _handler_of can instantiate",
        "C05.class-links": "ProjectionClass2D/3D/4D, GenericClass, MomentumClass of every backend vector class have the named dimension, the same backend/kind, and the right flavor",
        "C05.operators": "ufunc and behavior tables equal the documented operator map in all four backends",
        "C05.dunder": "operator methods forward to the matching numpy ufunc with operands in order",
    }.items():
        ctx.rule(r, d)

    # ---- tables ---------------------------------------------------------------------------
    shapes = {tuple(s) for s in map(tuple, wr.returns_shapes())}
    for mn in L.mods:
        short = L.short(mn)
        g, name = short.split(".")
        es = entries_of(L, mn)
        bad = []
        for e in es:
            rn = tuple(None if r is None else (r.__name__ if isinstance(r, type) else repr(r)) for r in e.ret)
            if rn not in shapes:
                bad.append((e.signame, rn, "not a shape the wrappers accept"))
                continue
            ncls = len([r for r in rn if r not in (None, "float", "bool")])
            nnone = len([r for r in rn if r is None])
            if name in RESULT_KIND["bool"]:
                okk = rn == ("bool",)
            elif short in RESULT_KIND["project3D"]:
                okk = ncls == 2 and nnone == 1
            elif rn in (("float",), ("bool",)):
                okk = rn == ("float",)
            else:
                okk = ncls == len(e.ops[-1 if short == "spatial.rotate_axis" else 0]) and nnone == 0
            if not okk:
                bad.append((e.signame, rn, "result kind differs from the documented one for this operation"))
        ctx.ob("C05.table", short, not bad, f"{len(bad)} entries with unexpected `returns`, e.g. {bad[:2]}", {"entries": bad[:6]}, short,
               sample={"module": short, "entries": len(es)})
    ctx.anchor("modules", len(L.mods), 82)

    # ---- methods reach tables -----------------------------------------------------------------
    nsites = 0
    for cls, g in (("Planar", "planar"), ("Spatial", "spatial"), ("Lorentz", "lorentz"), ("LorentzMomentum", "lorentz")):
        for name, m in class_methods(cls).items():
            for s in m.sites:
                nsites += 1
                if s.via_module_of:
                    ok = all(f"vector._compute.{gg}.{s.module}" in L.mods for gg in ("planar", "spatial", "lorentz")) and s.args == ["self", "other"]
                    ctx.ob("C05.method-reach", f"{cls}.{name} -> module.{s.module}", ok, "module.<op>.dispatch(self, other) must exist in planar, spatial and lorentz", None,
                           f"src/vector/_methods.py:{s.line}")
                    continue
                mn = f"vector._compute.{s.group}.{s.module}"
                ok = mn in L.mods
                msg = f"compute module {s.group}.{s.module} does not exist"
                if ok:
                    d = dispatch_summary(L.mods[mn])
                    ok = len(d.params) == len(s.args)
                    msg = f"dispatch({', '.join(d.params)}) called with {len(s.args)} arguments ({', '.join(s.args)})"
                    # group of the module must not exceed the class's dimension
                    ok = ok and GROUPS[s.group] <= GROUPS[g]
                ctx.ob("C05.method-reach", f"{cls}.{name} -> {s.group}.{s.module}", ok, msg, None, f"src/vector/_methods.py:{s.line}",
                       sample={"method": f"{cls}.{name}", "site": s.as_dict()})
                want_g = {"2D": "planar", "3D": "spatial", "4D": "lorentz"}.get(name[-2:], g)
                if f"vector._compute.{g}.{name}" in L.mods:
                    ctx.ob("C05.same-name", f"{cls}.{name} -> {s.group}.{s.module}", s.module == name,
                           f"{cls}.{name} dispatches to {s.group}.{s.module} although the module {g}.{name} exists", None, f"src/vector/_methods.py:{s.line}")
                own_exists = f"vector._compute.{want_g}.{s.module}" in L.mods  # a lower-dimensional quantity (no module of that name in the own group) is legitimately computed below
                ctx.ob("C05.own-group", f"{cls}.{name} -> {s.group}.{s.module}", s.group == want_g or not own_exists,
                       f"{cls}.{name} dispatches to the {s.group} group; a method of {cls} named {name} computes in the {want_g} group", None, f"src/vector/_methods.py:{s.line}")
    ctx.anchor("dispatch sites in the method layer", nsites, 100)

    # ---- _compute_module_of --------------------------------------------------------------------
    I0 = Interp(W)
    cmo = W.lookup_global("vector._methods", "_compute_module_of", I0)
    dimcls = {2: "VectorObject2D", 3: "VectorNumpy3D", 4: "MomentumArray4D"}
    for d1, d2 in itertools.product((2, 3, 4), repeat=2):
        I = Interp(W)
        a = Inst(W.classes[dimcls[d1]], {"__name__": "one"}, origin="abstract")
        b = Inst(W.classes[dimcls[d2]], {"__name__": "two"}, origin="abstract")
        try:
            r = I.call_function(cmo, [a, b], {})
            got = getattr(r, "name", repr(r))
        except PyRaise as e:
            got = f"raises {e.exc}"
        want = f"vector._compute.{ {2: 'planar', 3: 'spatial', 4: 'lorentz'}[min(d1, d2)] }".replace(" ", "")
        ctx.ob("C05.module-of", f"_compute_module_of({d1}D, {d2}D)", got == want, f"returns {got}, expected {want}", None, "src/vector/_methods.py")

    # ---- same-dimension discipline ----------------------------------------------------------------
    chain = {"Planar": ["Planar"], "Spatial": ["Spatial", "Planar"], "Lorentz": ["Lorentz", "Spatial", "Planar"]}
    for cls in ("Planar", "Spatial", "Lorentz"):
        for op in SAME_DIM_OPS:
            m = None
            for base in chain[cls]:
                m = class_methods(base).get(op)
                if m is not None:
                    break
            if m is None:
                raise AnalysisError(f"anchor {cls}.{op} missing")
            ok = bool(m.sites) and all(
                any(g.startswith("_maybe_same_dimension_error(self, other,") for g in s.guards) for s in m.sites
            ) and not m.returns
            ctx.ob("C05.same-dimension", f"{cls}.{op}", ok, "a path reaches dispatch without _maybe_same_dimension_error(self, other, ...)",
                   [s.as_dict() for s in m.sites], f"src/vector/_methods.py:{m.fn.lineno}")
    msde = W.lookup_global("vector._methods", "_maybe_same_dimension_error", I0)
    dimf = W.lookup_global("vector._methods", "dim", I0)
    allcls = [c for c in W.classes if c[:6] in ("Vector", "Moment") and c[-2:] in ("2D", "3D", "4D") and backend_of(c) and "Awkward" not in c and "Protocol" not in c]
    for c in allcls:
        I = Interp(W)
        r = I.call_function(dimf, [Inst(W.classes[c], {}, origin="abstract")], {})
        ctx.ob("C05.same-dimension", f"dim({c})", r == int(c[-2]), f"dim returns {r}", None, "src/vector/_methods.py")
    for d1, d2 in itertools.product((2, 3, 4), repeat=2):
        I = Interp(W)
        try:
            I.call_function(msde, [Inst(W.classes[dimcls[d1]], {}, origin="abstract"), Inst(W.classes[dimcls[d2]], {}, origin="abstract"), "add"], {})
            got = "returns"
        except PyRaise as e:
            got = e.exc
        want = "returns" if d1 == d2 else "TypeError"
        ctx.ob("C05.same-dimension", f"_maybe_same_dimension_error({d1}D, {d2}D)", got == want, f"{got}, expected {want}", None, "src/vector/_methods.py")

    # ---- other guards ---------------------------------------------------------------------------------
    sp = class_methods("Spatial")
    lo = class_methods("Lorentz")
    # (class, method): (parameter whose dimension is tested, accepted (dim(self), dim(parameter)) pairs) - the guards are read as predicates, not as text
    guard_spec = {
        ("Spatial", "cross"): ("other", lambda ds, do: ds == 3 and do == 3),
        ("Spatial", "deltaangle"): ("other", lambda ds, do: do in (3, 4)),
        ("Spatial", "deltaeta"): ("other", lambda ds, do: do in (3, 4)),
        ("Spatial", "deltaR"): ("other", lambda ds, do: do in (3, 4)),
        ("Spatial", "deltaR2"): ("other", lambda ds, do: do in (3, 4)),
        ("Lorentz", "deltaRapidityPhi"): ("other", lambda ds, do: do == 4),
        ("Lorentz", "deltaRapidityPhi2"): ("other", lambda ds, do: do == 4),
        ("Lorentz", "boost_p4"): ("p4", lambda ds, do: do == 4),
        ("Lorentz", "boost_beta3"): ("beta3", lambda ds, do: do == 3),
        ("Lorentz", "boostCM_of_p4"): ("p4", lambda ds, do: do == 4),
        ("Lorentz", "boostCM_of_beta3"): ("beta3", lambda ds, do: do == 3),
    }
    import ast as _ast0

    def _cond_value(node, dims):
        """value of a guard condition built from dim(<name>), integer constants, == != < > <= >=, in / not in a tuple, and / or / not; None: not such a condition"""
        if isinstance(node, _ast0.Constant):
            return node.value
        if isinstance(node, _ast0.Tuple):
            vals = [_cond_value(e, dims) for e in node.elts]
            return None if any(v is None for v in vals) else tuple(vals)
        if isinstance(node, _ast0.Call) and unparse(node.func) == "dim" and len(node.args) == 1 and isinstance(node.args[0], _ast0.Name):
            return dims.get(node.args[0].id)
        if isinstance(node, _ast0.UnaryOp) and isinstance(node.op, _ast0.Not):
            v = _cond_value(node.operand, dims)
            return None if v is None else (not v)
        if isinstance(node, _ast0.BoolOp):
            vals = [_cond_value(v, dims) for v in node.values]
            if any(v is None for v in vals):
                return None
            return all(vals) if isinstance(node.op, _ast0.And) else any(vals)
        if isinstance(node, _ast0.Compare) and len(node.ops) == 1:
            l, r = _cond_value(node.left, dims), _cond_value(node.comparators[0], dims)
            if l is None or r is None:
                return None
            op = node.ops[0]
            table = {_ast0.Eq: lambda: l == r, _ast0.NotEq: lambda: l != r, _ast0.Lt: lambda: l < r, _ast0.Gt: lambda: l > r, _ast0.LtE: lambda: l <= r,
                     _ast0.GtE: lambda: l >= r, _ast0.In: lambda: l in r, _ast0.NotIn: lambda: l not in r}
            f = table.get(type(op))
            return None if f is None else f()
        return None

    for (cls, name), (par, accepts) in guard_spec.items():
        m = (sp if cls == "Spatial" else lo).get(name)
        if m is None:
            raise AnalysisError(f"anchor {cls}.{name} missing")
        ok = len(m.sites) == 1
        wrong = []
        if ok:
            conds = []
            for g_ in m.sites[0].guards:
                if g_.startswith("if ") and ": raise TypeError" in g_:
                    try:
                        conds.append(_ast0.parse(g_[3:g_.rindex(": raise")], mode="eval").body)
                    except SyntaxError:
                        pass
            for ds in ((3, 4) if cls == "Spatial" else (4,)):
                for do in (2, 3, 4):
                    vals = [_cond_value(c_, {"self": ds, par: do}) for c_ in conds]
                    rejected = any(v is True for v in vals)
                    if rejected == accepts(ds, do):
                        wrong.append((ds, do, "rejected" if rejected else "accepted"))
        ctx.ob("C05.dimension-guards", f"{cls}.{name}", ok and not wrong,
               f"guards before dispatch are {m.sites[0].guards if m.sites else None}: (dim(self), dim({par})) pairs decided wrongly: {wrong}", None,
               f"src/vector/_methods.py:{m.fn.lineno}")

    # ---- defaults: implementation == protocol ---------------------------------------------------------------
    import ast as _ast

    mfacts = facts("src/vector/_methods.py", ctx.repo)
    proto = {}
    for cname, cnode in mfacts.classes.items():
        if cname.startswith("VectorProtocol"):
            for st in cnode.body:
                if isinstance(st, _ast.FunctionDef):
                    proto.setdefault(st.name, []).append((cname, st))

    def sig(fn_):
        a = fn_.args
        names = [x.arg for x in a.args]
        d = [unparse(x) for x in a.defaults]
        pos = {n: v for n, v in zip(names[len(names) - len(d):], d)}
        kwo = {x.arg: (unparse(v) if v is not None else None) for x, v in zip(a.kwonlyargs, a.kw_defaults)}
        return names, pos, kwo

    n_def = 0
    for cls in ("Planar", "Spatial", "Lorentz"):
        cnode = mfacts.classes.get(cls)
        if cnode is None:
            raise AnalysisError(f"anchor class {cls} missing")
        for st in cnode.body:
            if not isinstance(st, _ast.FunctionDef) or st.name.startswith("_") or st.name not in proto:
                continue
            if any(unparse(d_) in ("property",) or unparse(d_).endswith(".setter") for d_ in st.decorator_list):
                continue
            names, pos, kwo = sig(st)
            # the protocol of the matching dimension if it declares the method, else any protocol class that does
            cands = proto[st.name]
            want = next((c for c in cands if c[0].endswith(cls)), cands[0])
            pn, pp, pk = sig(want[1])
            n_def += 1
            ok = names == pn and pos == pp and kwo == pk
            ctx.ob("C05.defaults-agree", f"{cls}.{st.name}", ok,
                   f"signature ({', '.join(names)}) defaults {pos} {kwo or ''} differs from {want[0]}.{st.name} ({', '.join(pn)}) defaults {pp} {pk or ''}",
                   None, f"src/vector/_methods.py:{st.lineno}")
    ctx.anchor("methods compared with their protocol signature", n_def, 60)

    # ---- handler priority ---------------------------------------------------------------------------------
    mf = facts("src/vector/_methods.py", ctx.repo)
    prio = literal(mf.assigns["_handler_priority"])
    ctx.ob("C05.handler", "_handler_priority", prio == PRIORITY, f"order is {prio}", None, "src/vector/_methods.py")
    hof = W.lookup_global("vector._methods", "_handler_of", I0)
    fof = W.lookup_global("vector._methods", "_flavor_of", I0)
    operands = []
    for b, pat in BACKEND_CLASSES.items():
        for f in ("Vector", "Momentum"):
            for d in (2, 3, 4):
                operands.append((b.split("-")[0], f, d, pat.format(f=f, d=d)))
    rank = {"object": 0, "numpy": 1, "sympy": 2, "awkward": 3}
    npairs = 0
    for (b1, f1, d1, c1), (b2, f2, d2, c2) in itertools.product(operands, repeat=2):
        if d1 != d2:
            continue
        npairs += 1
        x = Inst(W.classes[c1], {"__name__": "v1"}, origin="abstract")
        y = Inst(W.classes[c2], {"__name__": "v2"}, origin="abstract")
        I = Interp(W)
        h = I.call_function(hof, [x, y], {})
        want = y if rank[b2] > rank[b1] else x
        ctx.ob("C05.handler", f"_handler_of({c1}, {c2})", h is want, f"returns {getattr(h, 'attrs', {}).get('__name__', h)}, expected {'v2' if want is y else 'v1'}",
               None, "src/vector/_methods.py", sample={"pair": [c1, c2], "handler": "v2" if want is y else "v1"})
        if "sympy" in (b1, b2) and b1 != b2:
            continue  # numpy lib and SympyLib cannot be mixed (_lib_of raises); outside the stated lattice
        I = Interp(W)
        cls = I.call_function(fof, [x, y], {})
        mom = "Momentum" in (f1, f2)
        ok = isinstance(cls, ClassVal) and cls.name.startswith("Momentum" if mom else "Vector") and cls.name[-2:] == f"{d1}D"
        msg = f"returns {cls!r} for flavors ({f1}, {f2})"
        if ok:
            hb = backend_of(want.cls.name)
            cb = backend_of(cls.name)
            if hb != "awkward" and cb != hb:
                ok = False
                msg = f"returns {cls.name} ({cb} backend) while the result is wrapped by the {hb} handler, which instantiates cls.ProjectionClassND"
        ctx.ob("C05.flavor", f"_flavor_of({c1}, {c2})", ok, msg, None, "src/vector/_methods.py")
    ctx.anchor("operand class pairs", npairs, 300)
    for c in allcls:
        I = Interp(W)
        cls = I.call_function(fof, [Inst(W.classes[c], {}, origin="abstract")], {})
        ok = isinstance(cls, ClassVal) and cls.name.startswith(c[:6] if c.startswith("Vector") else "Momentum") and cls.name[-2:] == c[-2:] \
            and backend_of(cls.name) == backend_of(c)
        ctx.ob("C05.flavor", f"_flavor_of({c})", ok, f"returns {cls!r}", None, "src/vector/_methods.py")

    # ---- counted operands in dispatchers -------------------------------------------------------------------
    for mn, mod in L.mods.items():
        d = dispatch_summary(mod)
        vec = [v for v, _ in d.operands()]
        short = L.short(mn)
        counted = vec[-1:] if short == "spatial.rotate_axis" else vec
        want_f = f"_flavor_of({', '.join(counted)})"
        want_h = counted[0] if len(vec) == 1 else f"_handler_of({', '.join(counted)})"
        ok = d.flavor_expr == want_f and d.handler_expr == want_h
        ctx.ob("C05.counted-operands", short, ok, f"handler={d.handler_expr}, flavor={d.flavor_expr}; expected {want_h}, {want_f}", None, f"{short}.dispatch")

    # ---- class links -----------------------------------------------------------------------------------------
    nlinks = 0
    for c in [x for x in W.classes if x[:6] in ("Vector", "Moment") and x[-2:] in ("2D", "3D", "4D") and backend_of(x) and "Awkward" not in x and "Protocol" not in x]:
        flavor = "Momentum" if c.startswith("Momentum") else "Vector"
        stem = c[len(flavor):-2]  # Object / Numpy / Sympy / Array / Record
        for attr, want in [(f"ProjectionClass{d}D", f"{flavor}{stem}{d}D") for d in (2, 3, 4)] + \
                          [("GenericClass", f"Vector{stem}{c[-2:]}"), ("MomentumClass", f"Momentum{stem}{c[-2:]}")]:
            nlinks += 1
            ca = W.class_attr(c, attr)
            got = unparse(ca[0]) if ca is not None else None
            ctx.ob("C05.class-links", f"{c}.{attr}", got == want, f"is {got}, expected {want}", None, f"src/vector/backends ({c})",
                   sample={"class": c, "attr": attr, "value": got})
    ctx.anchor("class links", nlinks, 30 * 5)

    # ---- operators -----------------------------------------------------------------------------------------------
    n = table_obligations(ctx, "C05.operators")
    ctx.anchor("operator table entries", n, 3 * 15 * 3 + 5 * 72 + 10 * 6)
    dunder_obligations(ctx, "C05.dunder", backends=("object", "sympy", "numpy"))
    # ---- casts of NumPy vector arrays met by Awkward operators keep the flavor -------------------------------
    import ast as _ast
    from ..peval import BUILTINS, FuncVal
    from ..ufuncs import extract_awkward_behaviors
    ctx.rule("C05.cast-flavor", "behavior['__cast__', <NumPy vector class>] (used when an operator mixes Awkward and NumPy vectors) produces a record array of the same flavor and dimension as the NumPy array")
    tab = extract_awkward_behaviors(ctx.repo)
    BUILTINS["__true__"] = lambda I, a, k, n: True
    names_of = {2: ("x", "y"), 3: ("rho", "phi", "eta"), 4: ("x", "y", "z", "tau")}
    for d in (2, 3, 4):
        for flavor in ("Vector", "Momentum"):
            cname = f"{flavor}Numpy{d}D"
            ent = None
            for base in W.mro(cname):
                ent = tab.get(("'__cast__'", base))
                if ent is not None:
                    break
            if ent is None:
                ctx.ob("C05.cast-flavor", cname, False, "no __cast__ behaviour reaches this class", None, "src/vector/backends/awkward.py")
                continue
            node = ent[3]
            named = []
            models = {
                "awkward.Array": lambda I, a, k: Opaque("akarray", "akarray"),
                "awkward.fields": lambda I, a, k, d=d: list(names_of[d]),
                "awkward.zip": lambda I, a, k: Opaque("zipped", "akarray"),
                "awkward.with_name": lambda I, a, k: (named.append(a[1] if len(a) > 1 else k.get("name")) or Opaque("named", "akarray")),
            }
            envc = W.module_env("vector.backends.awkward_constructors")
            saved = envc.get("_is_type_safe")
            envc["_is_type_safe"] = ("builtin", "__true__")
            try:
                I = Interp(W, ext_models=models)
                v = Inst(W.classes[cname], {"__name__": "v"}, origin="abstract")
                if isinstance(node, _ast.Lambda):
                    fv = ("closure", FuncVal(node, "vector.backends.awkward"), {})
                else:
                    fv = W.lookup_global("vector.backends.awkward", unparse(node), I)
                I.call(fv, [v], {})
                got = named[-1] if named else None
                msg = f"cast yields a record array named {got!r}, expected '{flavor}{d}D'"
                ok = got == f"{flavor}{d}D"
            except PyRaise as e:
                ok, msg = False, f"raises {e.exc}: {e.msg[:80]}"
            finally:
                envc["_is_type_safe"] = saved
            ctx.ob("C05.cast-flavor", cname, ok, msg, None, f"src/vector/backends/awkward.py:{ent[2]}", sample={"class": cname, "record": f"{flavor}{d}D"})
    # awkward: every record name has a behaviour class pair
    ctx.decline("type(result) as produced by NumPy view casting and Awkward behavior lookup at run time")
    ctx.decline("mixed object/NumPy with SymPy operands (rejected by _lib_of; outside the stated object < NumPy < Awkward lattice)")
