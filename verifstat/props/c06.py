"""C06 — constructors accept the documented coordinate sets and store them verbatim.

Key-set abstract interpretation: obj(), the six object classes, _check_names (vector.zip / vector.Array)
and vector.array's classification + __array_finalize__ are interpreted (AST, not executed) on every
subset of the 19 recognised names (size <= 5 in the quick tier, <= 6 in the thorough tier) with opaque
value tokens, and compared with a specification computed from the documented grammar.
"""
from __future__ import annotations

import ast
import itertools
import multiprocessing
import os

from ..core import AnalysisError
from ..loader import facts, literal, unparse
from ..peval import FuncVal, Inst, Interp, Opaque, PyRaise, Undecided, World

LEVEL = "other"
EXPLANATION = (
    "An abstract interpreter walks the syntax trees of vector.obj/_gather_coordinates, VectorObject2D/3D/4D and "
    "MomentumObject2D/3D/4D.__init__, awkward_constructors._check_names, and numpy.array + "
    "(Vector|Momentum)Numpy*D.__array_finalize__ with concrete key sets and opaque value tokens (no repository "
    "code is executed) for EVERY subset of the 19 recognised coordinate names up to the tier's size bound, and "
    "compares the outcome (exception type, or class/dimension/flavor and which token sits in which coordinate "
    "slot) with a specification computed from the documented grammar (x,y | rho,phi [+ z|theta|eta [+ t|tau]] "
    "with the documented synonyms; duplicates through synonyms rejected).  Also decided: non-numeric and boolean "
    "values are rejected by obj and all six object classes (value tokens of abstract type bool / str); the synonym "
    "tables equal the documented ones; Array/zip name the record from _check_names' result.  Not decided: NumPy's "
    "own dtype machinery (duplicate field names after renaming are assumed to raise ValueError as NumPy "
    "documents), Awkward type checks, acceptance of exotic numeric types."
)

NAMES = ["x", "px", "y", "py", "rho", "pt", "phi", "z", "pz", "theta", "eta", "t", "E", "e", "energy", "tau", "M", "m", "mass"]
DOC_SYN = {"px": "x", "py": "y", "pt": "rho", "pz": "z", "E": "t", "e": "t", "energy": "t", "M": "tau", "m": "tau", "mass": "tau"}
GENERIC = ["x", "y", "rho", "phi", "z", "theta", "eta", "t", "tau"]
AZ = {"xy": ("x", "y"), "rhophi": ("rho", "phi")}
LONG = ("z", "theta", "eta")
TEMP = ("t", "tau")
AZCLS = {"xy": "XY", "rhophi": "RhoPhi"}
LCLS = {"z": "Z", "theta": "Theta", "eta": "Eta"}
TCLS = {"t": "T", "tau": "Tau"}


# ---- specification from the documented grammar -----------------------------------------------

def spec(S):
    """None if the documented grammar rejects the name set; else dict(dim, momentum, az, long, temp, slots: generic -> given name)"""
    slots = {}
    for n in S:
        g = DOC_SYN.get(n, n)
        if g not in GENERIC:
            return None
        if g in slots:
            return None  # same coordinate spelled twice
        slots[g] = n
    G = set(slots)
    az = None
    for k, (a, b) in AZ.items():
        if a in G and b in G:
            if az is not None:
                return None
            az = k
    if az is None:
        return None
    rest = G - set(AZ[az])
    lo = [k for k in LONG if k in rest]
    te = [k for k in TEMP if k in rest]
    if len(lo) > 1 or len(te) > 1:
        return None
    if rest - set(lo) - set(te):
        return None  # e.g. rho with x,y
    if te and not lo:
        return None
    return {
        "dim": 2 + len(lo) + len(te), "momentum": any(n in DOC_SYN for n in S),
        "az": az, "long": lo[0] if lo else None, "temp": te[0] if te else None, "slots": slots,
    }


def describe(inst: Inst):
    """(class name, {generic coordinate: token tag}) of a constructed object vector"""
    out = {}
    classes = []
    for grp in ("azimuthal", "longitudinal", "temporal"):
        c = inst.attrs.get(grp)
        if c is None:
            continue
        if not isinstance(c, Inst):
            return inst.cls.name, None, None
        classes.append(c.cls.name)
        for k, v in c.attrs.items():
            out[k] = v.tag if isinstance(v, Opaque) else repr(v)
    return inst.cls.name, classes, out


def expected_obj(sp, prefix):
    flavor = "Momentum" if sp["momentum"] else "Vector"
    cls = f"{flavor}Object{sp['dim']}D" if prefix is None else prefix
    classes = [f"AzimuthalObject{AZCLS[sp['az']]}"]
    if sp["long"]:
        classes.append(f"LongitudinalObject{LCLS[sp['long']]}")
    if sp["temp"]:
        classes.append(f"TemporalObject{TCLS[sp['temp']]}")
    slots = {g: f"v_{n}" for g, n in sp["slots"].items()}
    return cls, classes, slots


# ---- one name set through every constructor ------------------------------------------------------

def check_nameset(W: World, S, fns):
    """returns list of (rule, construct, message, witness)"""
    out = []
    sp = spec(S)
    key = ",".join(S) if S else "(empty)"
    kw = lambda: {n: Opaque("v_" + n, "real") for n in S}  # noqa: E731

    def run(callable_, args, kwargs):
        I = Interp(W)
        try:
            return ("ok", I.call(callable_, args, kwargs), I)
        except PyRaise as e:
            return ("raise", e.exc, e.msg)

    # obj
    r = run(fns["obj"], [], kw())
    if sp is None:
        if r[0] == "ok":
            out.append(("C06.obj", f"obj({key})", f"accepts a name set the documentation rejects; built {r[1]!r}", {"names": list(S), "built": repr(r[1])}))
        elif r[1] != "TypeError":
            out.append(("C06.obj", f"obj({key})", f"raises {r[1]} instead of TypeError", {"names": list(S)}))
    else:
        if r[0] != "ok":
            out.append(("C06.obj", f"obj({key})", f"rejects a documented name set with {r[1]}: {r[2][:60]}", {"names": list(S)}))
        else:
            got = describe(r[1])
            exp = expected_obj(sp, None)
            if got != exp:
                out.append(("C06.obj", f"obj({key})", f"built {got}, documented {exp}", {"names": list(S), "got": got, "expected": exp}))
    # classes
    for dim in (2, 3, 4):
        for flavor in ("Vector", "Momentum"):
            cname = f"{flavor}Object{dim}D"
            r = run(fns[cname], [], kw())
            if not S:
                continue  # no keywords: "must give Azimuthal ..." path, not a name-set question
            has_syn = any(n in DOC_SYN for n in S)
            should = sp is not None and sp["dim"] == dim
            if flavor == "Vector" and has_syn:
                # generic class given momentum spellings: acceptance itself is not specified; if accepted it must be right
                if r[0] == "ok" and not should:
                    out.append(("C06.class", f"{cname}({key})", f"accepts an invalid/duplicate name set; built {r[1]!r}", {"names": list(S)}))
                elif r[0] == "ok":
                    got = describe(r[1])
                    exp = expected_obj(sp, cname)
                    if got != exp:
                        out.append(("C06.class", f"{cname}({key})", f"built {got}, expected {exp}", {"names": list(S)}))
                continue
            if should:
                if r[0] != "ok":
                    out.append(("C06.class", f"{cname}({key})", f"rejects a documented name set with {r[1]}", {"names": list(S)}))
                else:
                    got = describe(r[1])
                    exp = expected_obj(sp, cname)
                    if got != exp:
                        out.append(("C06.class", f"{cname}({key})", f"built {got}, expected {exp}", {"names": list(S), "got": got, "expected": exp}))
            else:
                if r[0] == "ok":
                    out.append(("C06.class", f"{cname}({key})", f"accepts a name set that is not a documented {dim}D set; built {r[1]!r}", {"names": list(S), "built": repr(r[1])}))
                elif r[1] != "TypeError":
                    out.append(("C06.class", f"{cname}({key})", f"raises {r[1]} instead of TypeError", {"names": list(S)}))
    # _check_names (vector.zip / vector.Array)
    proj = {n: Opaque("col_" + n, "array") for n in S}
    r = run(fns["_check_names"], [proj, list(S)], {})
    if r[0] == "ok":
        try:
            is_mom, dimension, names, columns = r[1]
        except Exception:  # noqa: BLE001
            out.append(("C06.check-names", f"_check_names({key})", f"unexpected return value {r[1]!r}", None))
        else:
            ncoord = {2: 2, 3: 3, 4: 4}.get(dimension)
            ok = ncoord is not None and len(names) == len(columns) == len(S) and len(set(names)) == len(names)
            msg = ""
            if ok:
                vec = names[:ncoord]
                sp_vec = spec(vec)
                ok = sp_vec is not None and sp_vec["dim"] == dimension and not any(n in DOC_SYN for n in vec)
                if not ok:
                    msg = f"vector part {vec} is not a documented generic {dimension}D coordinate set"
                else:
                    # every column is the given column of a spelling of its name; extras keep their own name
                    used = set()
                    for nm, col in zip(names, columns):
                        src = col.tag[4:] if isinstance(col, Opaque) and str(col.tag).startswith("col_") else None
                        if src is None or src in used or src not in S:
                            ok = False
                            msg = f"column for field {nm} is {col!r}"
                            break
                        used.add(src)
                        idx = names.index(nm)
                        if idx < ncoord:
                            if DOC_SYN.get(src, src) != nm:
                                ok = False
                                msg = f"coordinate field {nm} is filled from {src}"
                                break
                        elif src != nm:
                            ok = False
                            msg = f"extra field {nm} is filled from {src}"
                            break
                    if ok and used != set(S):
                        ok = False
                        msg = "some given fields were dropped"
                    if ok:
                        syn_used = any((c.tag[4:] in DOC_SYN) for c in columns[:ncoord])
                        if bool(is_mom) != syn_used:
                            ok = False
                            msg = f"is_momentum={is_mom} but momentum spellings used for coordinates: {syn_used}"
            else:
                msg = f"returned dimension={dimension}, names={names}"
            if not ok:
                out.append(("C06.check-names", f"_check_names({key})", msg, {"names": list(S), "returned": repr(r[1])[:200]}))
            # agreement with obj: a documented set must come out with the same dimension/flavor
            if ok and sp is not None and (dimension != sp["dim"] or bool(is_mom) != sp["momentum"]):
                out.append(("C06.agree", f"_check_names({key})", f"dimension/flavor ({dimension},{is_mom}) differ from obj's ({sp['dim']},{sp['momentum']})", None))
    else:
        if r[1] != "TypeError":
            out.append(("C06.check-names", f"_check_names({key})", f"raises {r[1]} instead of TypeError", {"names": list(S)}))
        if sp is not None:
            out.append(("C06.agree", f"_check_names({key})", f"vector.zip/Array reject a documented name set ({r[1]}: {r[2][:50]})", {"names": list(S)}))
    # vector.array: classification, then __array_finalize__ of the chosen class on those dtype names
    if S:
        cols = {n: Opaque("col_" + n, "array") for n in S}
        r = run(fns["array"], [cols], {})
        if r[0] != "ok" or not isinstance(r[1], Inst):
            out.append(("C06.numpy-array", f"array({key})", f"classification failed: {r[1:]}", None))
        else:
            cname = r[1].cls.name
            is_mom = any(n in DOC_SYN for n in S)
            dim = 4 if any(DOC_SYN.get(n, n) in TEMP for n in S) else 3 if any(DOC_SYN.get(n, n) in LONG for n in S) else 2
            want = f"{'Momentum' if is_mom else 'Vector'}Numpy{dim}D"
            if cname != want:
                out.append(("C06.numpy-array", f"array({key})", f"chooses {cname}, documented rule gives {want}", {"names": list(S)}))
            else:
                order = sorted(S, key=NAMES.index)
                res = finalize(W, cname, order)
                renamed = [DOC_SYN.get(n, n) for n in order] if is_mom else list(order)
                dup = len(set(renamed)) != len(renamed)
                G = set(renamed)
                azs = [k for k, (a, b) in AZ.items() if a in G and b in G]
                los = [k for k in LONG if k in G]
                tes = [k for k in TEMP if k in G]
                valid = not dup and bool(azs) and (dim < 3 or bool(los)) and (dim < 4 or bool(tes))
                if valid:
                    exp = {"_azimuthal_type": f"AzimuthalNumpy{AZCLS[azs[0]]}"}
                    if dim >= 3:
                        exp["_longitudinal_type"] = f"LongitudinalNumpy{LCLS[los[0]]}"
                    if dim >= 4:
                        exp["_temporal_type"] = f"TemporalNumpy{TCLS[tes[0]]}"
                    if res[0] != "ok":
                        out.append(("C06.numpy-array", f"array({key})", f"{cname}.__array_finalize__ rejects a complete coordinate set: {res[1:]}", {"names": list(S)}))
                    elif res[1] != exp or res[2] != tuple(renamed):
                        out.append(("C06.numpy-array", f"array({key})", f"{cname}.__array_finalize__ gives {res[1]}, names {res[2]}; expected {exp}, names {tuple(renamed)}", {"names": list(S)}))
                    if sp is not None and (sp["dim"] != dim or sp["momentum"] != is_mom):
                        out.append(("C06.agree", f"array({key})", "dimension/flavor differ from obj's", None))
                else:
                    if res[0] == "ok":
                        out.append(("C06.numpy-array", f"array({key})", f"{cname} built from an incomplete/duplicate coordinate set {renamed}", {"names": list(S)}))
                    elif res[1] not in ("TypeError", "ValueError"):
                        out.append(("C06.numpy-array", f"array({key})", f"raises {res[1]}", {"names": list(S)}))
                if sp is not None and not valid:
                    out.append(("C06.agree", f"array({key})", "vector.array rejects a name set vector.obj accepts", {"names": list(S)}))
    return out


def finalize(W: World, cname, names):
    """interpret <cname>.__array_finalize__ on an abstract array whose dtype.names == names"""
    I = Interp(W)
    cls = W.classes[cname]
    dtype = Inst(W.classes.get("object") or cls, {"names": tuple(names)}, origin="abstract")
    dtype.cls = _DTYPE_CLS(W)
    self = Inst(cls, {"dtype": dtype, "__name__": "self"}, origin="abstract")
    fn, cv = W.find_method(cname, "__array_finalize__")
    if fn is None:
        raise AnalysisError(f"anchor {cname}.__array_finalize__ missing")
    from ..peval import FuncVal
    # _is_type_safe(self) inspects numpy dtypes of the fields: outside the model, assume numeric columns
    saved = W.module_env("vector.backends.numpy").get("_is_type_safe")
    W.module_env("vector.backends.numpy")["_is_type_safe"] = ("builtin", "__true__")
    try:
        I.call_function(FuncVal(fn, cv.module, bound=self, owner=cv), [Opaque("obj", "notnone")], {})
    except PyRaise as e:
        return ("raise", e.exc, e.msg[:60])
    finally:
        W.module_env("vector.backends.numpy")["_is_type_safe"] = saved
    names_after = dtype.attrs["names"]
    if len(set(names_after)) != len(names_after):
        return ("raise", "ValueError", "numpy: duplicate field names")
    types = {k: v.name for k, v in self.attrs.items() if k.startswith("_") and k.endswith("_type")}
    return ("ok", types, tuple(names_after))


_DT = {}


def _DTYPE_CLS(W):
    from ..peval import ClassVal
    if "c" not in _DT:
        _DT["c"] = ClassVal("__numpy_dtype__", "vector.backends.numpy", ast.parse("class __numpy_dtype__: pass").body[0], W)
    return _DT["c"]


from ..peval import BUILTINS  # noqa: E402

BUILTINS["__true__"] = lambda I, args, kwargs, node: True


def _functions(W: World):
    I = Interp(W)
    fns = {
        "obj": W.lookup_global("vector.backends.object", "obj", I),
        "_check_names": W.lookup_global("vector.backends.awkward_constructors", "_check_names", I),
        "array": W.lookup_global("vector.backends.numpy", "array", I),
    }
    for dim in (2, 3, 4):
        for flavor in ("Vector", "Momentum"):
            n = f"{flavor}Object{dim}D"
            if n not in W.classes:
                raise AnalysisError(f"anchor class {n} missing")
            fns[n] = W.classes[n]
    return fns


_WORLD = {}


def _worker(chunk):
    repo = chunk[0]
    if repo not in _WORLD:
        from pathlib import Path
        W = World(Path(repo))
        _WORLD[repo] = (W, _functions(W))
    W, fns = _WORLD[repo]
    out = []
    n = 0
    for S in chunk[1]:
        try:
            out.extend(check_nameset(W, S, fns))
        except Undecided as e:
            if "condition depends on an opaque value" not in str(e):
                out.append(("__undecided__", ",".join(S), str(e), None))
            else:
                # a branch on the truth value of a coordinate: decide under both assumptions; the outcome must not depend on it
                res = []
                for pol in (True, False):
                    Interp.OPAQUE_TRUTH = pol
                    try:
                        res.append(sorted(map(repr, check_nameset(W, S, fns))))
                    except Undecided as e2:
                        res.append(["__undecided__:" + str(e2)])
                    finally:
                        Interp.OPAQUE_TRUTH = None
                if any(r and r[0].startswith("__undecided__") for r in res):
                    out.append(("__undecided__", ",".join(S), str(e), None))
                else:
                    key = ",".join(S) or "(none)"
                    out.append(("C06.value-independence", f"name set {{{key}}}",
                                f"acceptance or storage depends on the truth value of a coordinate ({str(e)[:120]}): with non-zero values the checks report "
                                f"{len(res[0])} problem(s), with zero values {len(res[1])}", {"nonzero": res[0][:3], "zero": res[1][:3]}))
        n += 1
    return n, out


def run(ctx):
    W = World(ctx.repo)
    fns = _functions(W)
    ctx.rule("C06.synonym-table", "_repr_momentum_to_generic equals the documented synonym table; _coordinate_order lists exactly the 19 recognised names; _repr_generic_to_momentum maps back consistently")
    ctx.rule("C06.obj", "vector.obj on a name set: TypeError iff the documented grammar rejects it, else the documented class with every value token in the slot of its own coordinate")
    ctx.rule("C06.class", "VectorObjectND / MomentumObjectND(**names): accepted iff a documented N-dimensional set (no duplicates through synonyms), values in their own slots")
    ctx.rule("C06.check-names", "_check_names (vector.zip, vector.Array): if it returns, the vector part is a complete generic coordinate set of the returned dimension filled from spellings of those coordinates, all other fields carried unchanged, flavor = a synonym was used; otherwise TypeError")
    ctx.rule("C06.numpy-array", "vector.array picks (Momentum|Vector)Numpy{2,3,4}D by the documented rule and the class's __array_finalize__ derives coordinate types from a complete coordinate set or raises")
    ctx.rule("C06.agree", "a name set accepted by vector.obj is accepted with the same dimension and flavor by vector.zip/Array and vector.array")
    ctx.rule("C06.value-types", "bool, str, complex and the NumPy scalars that are not real numbers (bool_, complex128, str_, datetime64) are rejected with TypeError by obj and by all six object classes; int and NumPy float / integer scalars are accepted")
    ctx.rule("C06.value-independence", "no constructor branches on the truth value of a coordinate (a zero must be handled like any other number): decided by interpreting under both assumptions when such a branch is met")
    ctx.rule("C06.record-name", "Array/zip name the record _recname(is_momentum, dimension) from _check_names' own result and zip names with columns in order")

    _columns_rule(ctx, W)
    _extra_fields_rule(ctx, W, fns)
    _coordinate_dtypes_rule(ctx, W)

    # ---- synonym tables
    mf = facts("src/vector/_methods.py", ctx.repo)
    m2g = literal(mf.assigns["_repr_momentum_to_generic"])
    g2m = literal(mf.assigns["_repr_generic_to_momentum"])
    order = literal(mf.assigns["_coordinate_order"])
    ctx.ob("C06.synonym-table", "_repr_momentum_to_generic", m2g == DOC_SYN, f"table is {m2g}, documented {DOC_SYN}", None, "src/vector/_methods.py")
    ctx.ob("C06.synonym-table", "_coordinate_order", sorted(order) == sorted(NAMES) and len(order) == len(set(order)),
           f"names {sorted(set(order) ^ set(NAMES))} differ from the 19 recognised names", None, "src/vector/_methods.py")
    ctx.ob("C06.synonym-table", "_repr_generic_to_momentum", all(m2g.get(v) == k for k, v in g2m.items()) and set(g2m) <= set(GENERIC),
           f"{g2m} is not a right-inverse of the synonym table", None, "src/vector/_methods.py")

    # ---- enumeration
    maxk = 6 if ctx.tier == "thorough" else 5
    sets = [S for k in range(0, maxk + 1) for S in itertools.combinations(NAMES, k)]
    jobs = min(int(os.environ.get("VERIF_JOBS", "16")), os.cpu_count() or 1)
    chunks = [(str(ctx.repo), sets[i::jobs * 4]) for i in range(jobs * 4)]
    total = 0
    findings = []
    if jobs > 1:
        with multiprocessing.get_context("fork").Pool(jobs) as pool:
            for n, out in pool.imap_unordered(_worker, chunks):
                total += n
                findings.extend(out)
    else:
        for ch in chunks:
            n, out = _worker(ch)
            total += n
            findings.extend(out)
    und = [f for f in findings if f[0] == "__undecided__"]
    if und:
        raise AnalysisError(f"interpreter could not decide {len(und)} name sets, e.g. {und[0][1]}: {und[0][2]}")
    ctx.anchor("name sets enumerated", total, len(sets))
    per_rule_total = {"C06.obj": total, "C06.class": total * 6, "C06.check-names": total, "C06.numpy-array": total - 1, "C06.agree": total, "C06.value-independence": total}
    bad = {}
    for rule, construct, msg, wit in findings:
        bad.setdefault(rule, []).append((construct, msg, wit))
    for rule, n in per_rule_total.items():
        fails = bad.get(rule, [])
        # held instances are counted in bulk (one obligation per name set and constructor)
        c = ctx.rule_counts.setdefault(rule, [0, 0])
        c[0] += n - len(fails)
        c[1] += n - len(fails)
        for construct, msg, wit in fails:
            ctx.ob(rule, construct, False, msg, wit)
        ctx.constructs.add(f"{rule}::<{n} name sets>")
    ctx.samples.append({"rule": "C06.obj", "construct": "obj(px,y,z)", "verdict": "held",
                        "detail": repr(Interp(W).call(fns["obj"], [], {n: Opaque('v_' + n, 'real') for n in ('px', 'y', 'z')}))})
    ctx.samples.append({"rule": "C06.obj", "construct": "obj(x,y,t)", "verdict": "held", "detail": "TypeError (temporal without longitudinal), as documented"})
    ctx.analysed["name_sets"] = total
    ctx.analysed["max_subset_size"] = maxk
    ctx.analysed["constructors"] = ["obj", "VectorObject2D/3D/4D", "MomentumObject2D/3D/4D", "_check_names (zip, Array)", "array + __array_finalize__"]

    # ---- value types
    valid = {2: ("x", "y"), 3: ("rho", "phi", "eta"), 4: ("x", "y", "z", "t")}
    # rejected: bool, non-numeric Python values and NumPy scalars that are not real numbers; accepted: Python and NumPy real numbers
    rejected = ("bool", "str", "complex", "numpy.bool_", "numpy.complex128", "numpy.str_", "numpy.datetime64")
    accepted = ("int", "numpy.float64", "numpy.float32", "numpy.int64", "numpy.uint8")
    for kind in rejected + accepted:
        for dim, S in valid.items():
            targets = [("obj", fns["obj"])] + [(f"{fl}Object{dim}D", fns[f"{fl}Object{dim}D"]) for fl in ("Vector", "Momentum")]
            for tname, fn in targets:
                for bad_name in S:
                    kw = {n: Opaque("v_" + n, kind if n == bad_name else "real") for n in S}
                    I = Interp(W)
                    try:
                        r = I.call(fn, [], kw)
                        ok, msg = kind in accepted, f"accepts a {kind} value for {bad_name}: built {r!r}"
                    except PyRaise as e:
                        ok, msg = kind in rejected and e.exc == "TypeError", (f"raises {e.exc} instead of TypeError" if kind in rejected else f"rejects a {kind} value for {bad_name} ({e.exc})")
                    except Undecided as e:
                        raise AnalysisError(f"C06.value-types: {tname} with a {kind} value could not be interpreted: {e}") from None
                    ctx.ob("C06.value-types", f"{tname}({','.join(S)}; {bad_name}:{kind})", ok, msg, None,
                           "src/vector/backends/object.py", sample={"constructor": tname, "bad": bad_name, "kind": kind})

    # ---- record naming in Array / zip
    cf = facts("src/vector/backends/awkward_constructors.py", ctx.repo)
    for fname in ("Array", "zip"):
        fn = cf.functions.get(fname)
        if fn is None:
            raise AnalysisError(f"anchor awkward_constructors.{fname} missing")
        src = unparse(fn)
        # a private module-level helper with a single return, called with plain names, is read with its parameters replaced by the arguments
        for c_ in ast.walk(fn):
            if isinstance(c_, ast.Call) and isinstance(c_.func, ast.Name) and c_.func.id in cf.functions and c_.func.id != fname and all(isinstance(a_, ast.Name) for a_ in c_.args) and not c_.keywords:
                h_ = cf.functions[c_.func.id]
                body_ = [st for st in h_.body if not (isinstance(st, ast.Expr) and isinstance(st.value, ast.Constant))]
                if len(body_) == 1 and isinstance(body_[0], ast.Return) and body_[0].value is not None and len(h_.args.args) == len(c_.args):
                    ren_ = {p_.arg: a_.id for p_, a_ in zip(h_.args.args, c_.args)}

                    class _Ren(ast.NodeTransformer):
                        def visit_Name(self, node):
                            return ast.copy_location(ast.Name(id=ren_.get(node.id, node.id), ctx=node.ctx), node)
                    import copy as _copy
                    src += "\n" + unparse(_Ren().visit(_copy.deepcopy(body_[0].value)))
        unpack = [st for st in ast.walk(fn) if isinstance(st, ast.Assign) and isinstance(st.value, ast.Call) and unparse(st.value.func) == "_check_names"]
        ok = len(unpack) == 1 and isinstance(unpack[0].targets[0], ast.Tuple) and len(unpack[0].targets[0].elts) == 4
        if ok:
            a, b, c, d = [unparse(x) for x in unpack[0].targets[0].elts]
            ok = f"_recname({a}, {b})" in src and (f'__builtins__["zip"]({c}, {d})' in src or f"__builtins__['zip']({c}, {d})" in src)
        ctx.ob("C06.record-name", f"awkward_constructors.{fname}", ok,
               "record name / zipped (names, columns) do not come from _check_names' (is_momentum, dimension, names, columns) in order",
               None, f"src/vector/backends/awkward_constructors.py:{fn.lineno}")
    ctx.decline("NumPy's own dtype machinery (duplicate field names after renaming assumed to raise ValueError), numpy.array/ak.Array argument handling")
    ctx.decline("acceptance of exotic numeric types by numbers.Real / dtype checks")
    if ctx.tier == "quick":
        ctx.decline("name sets of size 6 are enumerated in the thorough tier only (the property quantifies over sizes <= 5, covered in both tiers)")


def _columns_rule(ctx, W):
    """vector.array({...}): _array_from_columns builds the structured array from the dict of columns"""
    ctx.rule("C06.columns", "_array_from_columns on a dict of columns given in any order: one allocation numpy.empty|zeros|ones(shape, dtype) whose dtype lists the fields in canonical "
                            "coordinate order (extra fields after, in the given order), each field typed by the dtype of its OWN column (float64 for a plain sequence), "
                            "and every field filled from the column of the same name; differing shapes raise ValueError")
    env = W.module_env("vector.backends.numpy")
    fn = env.get("_array_from_columns")
    if not isinstance(fn, FuncVal):
        raise AnalysisError("anchor vector.backends.numpy._array_from_columns missing")
    order = literal(facts("src/vector/_methods.py", ctx.repo).assigns["_coordinate_order"])
    cases = [
        ("x", "y"), ("y", "x"), ("phi", "rho"), ("z", "x", "y"), ("x", "z", "y", "t"), ("mass", "eta", "phi", "pt"), ("pt", "eta", "phi", "mass"),
        ("charge", "y", "x"), ("y", "weight", "charge", "x"), ("E", "px", "pz", "py"), ("tau", "theta", "y", "x"), ("t", "z", "phi", "rho", "q"),
    ]
    n = 0
    for names in cases:
        for plain in ((), (names[0],)):  # one variant where the first listed column is a plain Python sequence
            n += 1
            cols, oa = {}, {}
            for nm in names:
                if nm in plain:
                    cols[nm] = [Opaque(f"{nm}[0]", "real"), Opaque(f"{nm}[1]", "real"), Opaque(f"{nm}[2]", "real")]
                else:
                    o = Opaque("col_" + nm, "ndarray")
                    cols[nm] = o
                    oa[o.tag] = {"shape": (3,), "dtype": Opaque("dtype_of_" + nm, "notnone")}
            empties = []

            def m_empty(I, args, kwargs, empties=empties):
                empties.append((args, kwargs))
                return Opaque(("numpy.empty", len(empties) - 1), "ndarray")

            I = Interp(W, ext_models={"numpy.empty": m_empty, "numpy.zeros": m_empty, "numpy.ones": m_empty}, opaque_attrs=oa)
            label = "{" + ", ".join(names) + "}" + (f" [{plain[0]}: list]" if plain else "")
            try:
                I.call_function(fn, [cols], {})
            except PyRaise as e:
                ctx.ob("C06.columns", label, False, f"raises {e.exc}", None, "src/vector/backends/numpy.py")
                continue
            except Undecided as e:
                raise AnalysisError(f"_array_from_columns could not be interpreted on {label}: {e}") from None
            want = sorted(names, key=lambda x: order.index(x) if x in order else len(order))  # stable: extras keep the given order
            msg = ""
            if len(empties) != 1:
                msg = f"{len(empties)} array allocations (numpy.empty/zeros/ones)"
            else:
                args, kwargs = empties[0]
                dt = kwargs.get("dtype", args[1] if len(args) > 1 else None)
                shape = kwargs.get("shape", args[0] if args else None)
                if shape != (3,):
                    msg = f"allocates shape {shape!r}, the columns have shape (3,)"
                elif not isinstance(dt, list) or [d[0] for d in dt if isinstance(d, tuple)] != want:
                    msg = f"dtype fields {[d[0] if isinstance(d, tuple) else d for d in dt] if isinstance(dt, list) else dt!r}, expected {want}"
                else:
                    for nm, src in dt:
                        exp = "numpy.float64" if nm in plain else f"dtype_of_{nm}"
                        got = src.tag if isinstance(src, Opaque) else (getattr(src, "name", None) or repr(src))
                        if str(got) != exp and not (nm in plain and "float64" in str(got)):
                            msg = f"field {nm} is typed by {got}, expected {exp}"
                            break
            if not msg:
                stores = {ev[2]: ev[3] for ev in I.trace if ev[0] == "setitem-opaque"}
                for nm in names:
                    src = stores.get(nm)
                    ok = (src is cols[nm]) if not isinstance(cols[nm], Opaque) else (isinstance(src, Opaque) and src.tag == cols[nm].tag)
                    if not ok:
                        msg = f"field {nm} is filled from {src!r}"
                        break
                if not msg and set(stores) != set(names):
                    msg = f"fields stored {sorted(stores)} differ from the columns {sorted(names)}"
            ctx.ob("C06.columns", label, not msg, msg, None, "src/vector/backends/numpy.py", sample={"dtype_order": want})
    # differing shapes are rejected
    o1, o2 = Opaque("col_x", "ndarray"), Opaque("col_y", "ndarray")
    I = Interp(W, ext_models={"numpy.empty": lambda I, a, k: Opaque("arr", "ndarray")},
               opaque_attrs={o1.tag: {"shape": (3,), "dtype": Opaque("d1", "notnone")}, o2.tag: {"shape": (4,), "dtype": Opaque("d2", "notnone")}})
    try:
        I.call_function(fn, [{"x": o1, "y": o2}], {})
        ok, msg = False, "columns of different shape are accepted"
    except PyRaise as e:
        ok, msg = e.exc == "ValueError", f"raises {e.exc}"
    except Undecided as e:
        raise AnalysisError(f"_array_from_columns (shape mismatch) could not be interpreted: {e}") from None
    ctx.ob("C06.columns", "{x: shape (3,), y: shape (4,)}", ok, msg, None, "src/vector/backends/numpy.py")
    ctx.anchor("column-order cases", n, 24)


def _extra_fields_rule(ctx, W, fns):
    """vector.zip / vector.Array keep every non-coordinate field, in order, whatever their number and position"""
    ctx.rule("C06.extra-fields", "_check_names on a documented coordinate set mixed with one, two and three non-coordinate fields (charge, pdg, iso) in several positions: every "
                                 "extra field comes back exactly once, after the coordinates, in the given order, bound to its own column")
    coord_sets = [("x", "y"), ("pt", "phi"), ("x", "y", "z"), ("rho", "phi", "eta"), ("px", "py", "pz", "E"), ("pt", "phi", "eta", "mass"), ("x", "y", "theta", "tau")]
    extras_sets = [("charge",), ("charge", "pdg"), ("charge", "pdg", "iso")]
    n = 0
    for cs in coord_sets:
        for ex in extras_sets:
            for layout in ("after", "before", "mixed"):
                if layout == "after":
                    fields = list(cs) + list(ex)
                elif layout == "before":
                    fields = list(ex) + list(cs)
                else:
                    fields = []
                    e_it = iter(ex)
                    for c_ in cs:
                        fields.append(c_)
                        nx = next(e_it, None)
                        if nx is not None:
                            fields.append(nx)
                    fields += list(e_it)
                n += 1
                label = "_check_names(" + ",".join(fields) + ")"
                proj = {f: Opaque("col_" + f, "array") for f in fields}
                I = Interp(W)
                try:
                    r = I.call(fns["_check_names"], [proj, list(fields)], {})
                except PyRaise as e:
                    ctx.ob("C06.extra-fields", label, False, f"raises {e.exc}", None, "src/vector/backends/awkward_constructors.py")
                    continue
                except Undecided as e:
                    raise AnalysisError(f"_check_names could not be interpreted on {label}: {e}") from None
                msg = ""
                try:
                    _, dimension, names, columns = r
                except Exception:  # noqa: BLE001
                    msg = f"unexpected return value {r!r}"
                if not msg:
                    got_ex = list(names[len(cs):])
                    want_ex = [f for f in fields if f in ex]
                    if got_ex != want_ex:
                        msg = f"extra fields returned {got_ex}, given {want_ex}"
                    else:
                        for nm, col in zip(names[len(cs):], columns[len(cs):]):
                            if not (isinstance(col, Opaque) and col.tag == "col_" + nm):
                                msg = f"extra field {nm} is bound to {col!r}"
                                break
                ctx.ob("C06.extra-fields", label, not msg, msg, None, "src/vector/backends/awkward_constructors.py")
    ctx.anchor("extra-field cases", n, 60)


_DTYPES = {  # name -> (numpy scalar type, dtype.kind, accepted as a coordinate type)
    "int8": ("numpy.int8", "i", True), "int64": ("numpy.int64", "i", True), "uint8": ("numpy.uint8", "u", True), "uint32": ("numpy.uint32", "u", True),
    "uint64": ("numpy.uint64", "u", True), "float32": ("numpy.float32", "f", True), "float64": ("numpy.float64", "f", True),
    "bool": ("numpy.bool_", "b", False), "complex128": ("numpy.complex128", "c", False), "timedelta64[ns]": ("numpy.timedelta64", "m", False),
    "datetime64[ns]": ("numpy.datetime64", "M", False), "str": ("numpy.str_", "U", False), "object": ("numpy.object_", "O", False),
}


def _coordinate_dtypes_rule(ctx, W):
    """signed and unsigned integers and floats are coordinate types for every constructor; nothing else is"""
    from ..peval import External

    ctx.rule("C06.coordinate-dtypes", "the type guards of the array constructors (numpy._is_type_safe behind vector.array and every view/slice; awkward_constructors._is_type_safe behind "
                                      "vector.Array) accept int8..int64, uint8..uint64 and float32/float64 fields and reject bool, complex, timedelta, datetime, string and object "
                                      "fields - interpreted on a model of the dtype / Awkward type objects, through flat, list, regular and option-typed nesting")
    fn_np = W.module_env("vector.backends.numpy").get("_is_type_safe")
    fn_ak = W.module_env("vector.backends.awkward_constructors").get("_is_type_safe")
    if not isinstance(fn_np, FuncVal) or not isinstance(fn_ak, FuncVal):
        raise AnalysisError("anchor _is_type_safe (numpy / awkward_constructors) missing")
    for name, (sc, kind, accepted) in _DTYPES.items():
        # numpy: a structured array with one float64 field and one field of this dtype
        oa = {}
        fields = []
        for i, (nm, (sc_, kind_, _)) in enumerate((("float64", _DTYPES["float64"]), (name, (sc, kind, accepted)))):
            fo = Opaque(f"fielddtype{i}_{nm}", "notnone")
            oa[fo.tag] = {"type": External(sc_), "kind": kind_, "name": nm.split("[")[0], "char": kind_}
            fields.append(fo)
        arr = Opaque("array_" + name, "ndarray")
        oa[arr.tag] = {"dtype": fields}
        I = Interp(W, opaque_attrs=oa)
        try:
            got = I.call_function(fn_np, [arr], {})
        except PyRaise as e:
            got = f"raises {e.exc}"
        except Undecided as e:
            raise AnalysisError(f"numpy._is_type_safe could not be interpreted for {name}: {e}") from None
        ctx.ob("C06.coordinate-dtypes", f"numpy._is_type_safe[{name}]", got is accepted, f"returns {got!r} for a field of dtype {name}; documented: {'accepted' if accepted else 'rejected'}",
               None, "src/vector/backends/numpy.py")
        # awkward: ArrayType -> (ListType | OptionType)* -> RecordType -> [NumpyType(float64), (OptionType ->) NumpyType(name)]
        for nest in ("flat", "list", "option-field", "option-list", "list-option-record", "regular-list"):
            oa = {}
            f0 = Opaque("nt_float64", "ak_numpytype")
            oa[f0.tag] = {"primitive": "float64"}
            f1 = Opaque("nt_" + name, "ak_numpytype")
            oa[f1.tag] = {"primitive": name}
            second = f1
            if nest == "option-field":
                second = Opaque("opt_" + name, "ak_optiontype")
                oa[second.tag] = {"content": f1}
            rec = Opaque("rec_" + name + nest, "ak_recordtype")
            oa[rec.tag] = {"contents": [f0, second], "fields": ["x", "y"]}
            inner = rec
            # wrappers from the record outwards: var * {..}, option[var * {..}] (a None between lists, an event mask), var * ?{..}, N * var * {..}
            wrappers = {"list": ["ak_listtype"], "option-list": ["ak_listtype", "ak_optiontype"], "list-option-record": ["ak_optiontype", "ak_listtype"],
                        "regular-list": ["ak_listtype", "ak_regulartype"]}.get(nest, [])
            for depth, wk in enumerate(wrappers):
                w_ = Opaque(f"{wk}{depth}_{name}", wk)
                oa[w_.tag] = {"content": inner}
                inner = w_
            top = Opaque("arrtype_" + name + nest, "ak_arraytype")
            oa[top.tag] = {"content": inner}
            I = Interp(W, opaque_attrs=oa)
            try:
                got = I.call_function(fn_ak, [top], {})
            except PyRaise as e:
                got = f"raises {e.exc}"
            except Undecided as e:
                raise AnalysisError(f"awkward_constructors._is_type_safe could not be interpreted for {name} ({nest}): {e}") from None
            ctx.ob("C06.coordinate-dtypes", f"awkward._is_type_safe[{name}; {nest}]", got is accepted,
                   f"returns {got!r} for a field of type {name}; documented: {'accepted' if accepted else 'rejected'}", None, "src/vector/backends/awkward_constructors.py")
