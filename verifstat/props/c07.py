"""C07 — Numba-compiled code behaves like the interpreter (syntax-only sibling comparison)."""
from __future__ import annotations

import ast

from ..core import AnalysisError
from ..dispatchers import dispatch_summary
from ..loader import facts, link, literal, parse_file, strip_docstring, unparse
from ..methods import class_methods
from ..peval import ClassVal, FuncVal, Inst, Interp, Opaque, PyRaise, Undecided, World

LEVEL = "other"
EXPLANATION = (
    "The Numba backend re-implements dispatch, flavor selection and result wrapping at typing time.  "
    "_numba_object.py / _numba.py are never imported; their syntax trees are compared with the interpreter path: "
    "(1) every overload_method / overload_attribute name (literal or generated from a name list) exists as a "
    "method / property of the interpreter class of that dimension with the same parameter names, order and "
    "defaults; (2) every `numba_modules[group][name]` lookup names an existing compute module, the one the "
    "interpreter method dispatches to; (3) in every overload, each coordinate getter coordK is bound to the "
    "operand it is later applied to, azimuthal coordinates are read with getcoord1 then getcoord2, the sequence "
    "of (coordinate group, operand) pairs fed to the kernel equals a signature tuple looked up in the same "
    "overload, and scalar arguments precede coordinates in the order of the interpreter's dispatch call; (4) the "
    "getcoord tables read the coordinate objects' fields in table order; (5) flavor_of and dimension_of, "
    "interpreted abstractly over all flavor and dimension combinations, agree with the interpreter's _flavor_of "
    "and dim; (6) _numba.py registers every function of every dispatch_map; (7) the vector.obj overload accepts "
    "exactly the 19 recognised names.  Not decided: Numba typing/lowering/boxing, LLVM code generation, the "
    "Awkward-Numba typer beyond its field-name tables."
)

NUMBA_OBJ = "src/vector/backends/_numba_object.py"
TYPEFN = {"numba_aztype": "az", "numba_ltype": "l", "numba_ttype": "t"}
VTYPE_DIM = {"VectorObject2DType": 2, "VectorObject3DType": 3, "VectorObject4DType": 4,
             "MomentumObject2DType": 2, "MomentumObject3DType": 3, "MomentumObject4DType": 4}
CLASS_CHAIN = {2: ["Planar"], 3: ["Spatial", "Planar"], 4: ["Lorentz", "Spatial", "Planar"]}
MOM_CHAIN = {2: ["PlanarMomentum"], 3: ["SpatialMomentum", "PlanarMomentum"], 4: ["LorentzMomentum", "SpatialMomentum", "PlanarMomentum"]}
NAMES19 = ["x", "px", "y", "py", "rho", "pt", "phi", "z", "pz", "theta", "eta", "t", "E", "e", "energy", "tau", "M", "m", "mass"]


def interp_method(dim, name, momentum=False):
    chains = (MOM_CHAIN[dim] if momentum else []) + CLASS_CHAIN[dim]
    for c in chains:
        m = class_methods(c).get(name)
        if m is not None:
            return m
    # methods defined on Vector / VectorObject (to_Vector2D, ...)
    for c in ("Vector2D", "Vector3D", "Vector4D", "Vector"):
        try:
            m = class_methods(c).get(name)
        except AnalysisError:
            m = None
        if m is not None and (c == "Vector" or c == f"Vector{dim}D"):
            return m
    return None


class Overload:
    def __init__(self, fn, decorators, names_from=None):
        self.fn = fn
        self.decorators = decorators  # list of (kind, vectortype expr, name expr)
        self.names_from = names_from


def collect_overloads(tree):
    """(function node, [(kind, typeexpr, nameexpr)]) for every overload_method/overload_attribute-decorated function, incl. nested"""
    out = []
    for node in ast.walk(tree):
        if isinstance(node, ast.FunctionDef):
            decs = []
            for d in node.decorator_list:
                if isinstance(d, ast.Call) and unparse(d.func) in ("numba.extending.overload_method", "numba.extending.overload_attribute") and len(d.args) == 2:
                    decs.append((unparse(d.func).split("_")[-1], d.args[0], d.args[1]))
            if decs:
                out.append((node, decs))
    return out


def generator_instances(tree):
    """for generator functions add_*(vectortype, [gn,] name): the literal (vectortype, name) pairs of the module-level loops calling them"""
    lists = {}
    for st in tree.body:
        if isinstance(st, ast.Assign) and len(st.targets) == 1 and isinstance(st.targets[0], ast.Name) and isinstance(st.value, (ast.List, ast.Tuple)):
            try:
                lists[st.targets[0].id] = literal(st.value)
            except AnalysisError:
                pass
    calls = {}

    def run(stmts, env):
        for st in stmts:
            if isinstance(st, ast.For):
                it = st.iter
                if isinstance(it, ast.Name) and it.id in lists:
                    vals = [ast.Constant(v) for v in lists[it.id]]
                elif isinstance(it, (ast.Tuple, ast.List)):
                    vals = it.elts
                else:
                    continue
                for v in vals:
                    e2 = dict(env)
                    if isinstance(st.target, ast.Name):
                        e2[st.target.id] = v
                    run(st.body, e2)
            elif isinstance(st, ast.Expr) and isinstance(st.value, ast.Call) and isinstance(st.value.func, ast.Name) and st.value.func.id.startswith("add_"):
                args = []
                for a in st.value.args:
                    if isinstance(a, ast.Name) and a.id in env:
                        a = env[a.id]
                    args.append(a)
                calls.setdefault(st.value.func.id, []).append(args)

    run(tree.body, {})
    return calls


def run(ctx):
    L = link(ctx.repo)
    W = World(ctx.repo)
    for r, d in {
        "C07.overload-exists": "the overloaded name is a method/property of the interpreter class of that dimension with the same parameters (names, order, defaults)",
        "C07.module-lookup": "numba_modules[group][name] names an existing compute module, the one the interpreter method dispatches to",
        "C07.coord-binding": "every coordK(v) applies a getter bound to the same operand v; azimuthal uses getcoord1 then getcoord2, longitudinal/temporal getcoord1",
        "C07.kernel-arguments": "the (group, operand) sequence of the coordinates passed to the kernel equals a signature tuple looked up in the same overload; scalars precede coordinates in the interpreter's order",
        "C07.getcoord-tables": "getcoord1/getcoord2 map each coordinate class to getters reading its first/second field in table order",
        "C07.flavor": "numba flavor_of(v1, v2) is a momentum class iff the interpreter's _flavor_of is (some operand momentum)",
        "C07.dimension": "numba dimension_of agrees with dim(); equal/not_equal reject operands of different dimension",
        "C07.registration": "_numba.py registers every function of every submodule's dispatch_map under numba_modules[group][module][signature]",
        "C07.obj-overload": "the vector.obj overload takes exactly the 19 recognised coordinate names as optional keywords",
    }.items():
        ctx.rule(r, d)
    nf = facts(NUMBA_OBJ, ctx.repo)
    tree = nf.tree
    overloads = collect_overloads(tree)
    ctx.anchor("overload sites", sum(len(d) for _, d in overloads), 96)
    gens = generator_instances(tree)

    # map nested overloader -> enclosing generator function name and its parameters
    parent = {}
    for st in tree.body:
        if isinstance(st, ast.FunctionDef) and st.name.startswith("add_"):
            for sub in ast.walk(st):
                if isinstance(sub, ast.FunctionDef) and sub is not st:
                    parent[id(sub)] = st

    # ---- (1) names and parameters ------------------------------------------------------------
    def instances(fn, decs):
        """concrete (kind, vectortype, name) triples for an overload function"""
        out = []
        gen = parent.get(id(fn))
        for kind, texpr, nexpr in decs:
            if gen is None:
                tname = unparse(texpr)
                try:
                    out.append((kind, tname, literal(nexpr)))
                except AnalysisError:
                    out.append((kind, tname, None))
            else:
                gparams = [a.arg for a in gen.args.args]
                for call in gens.get(gen.name, []):
                    env = dict(zip(gparams, call))
                    t = env.get(unparse(texpr), texpr)
                    nm = env.get(unparse(nexpr), nexpr)
                    tname = unparse(t) if not isinstance(t, str) else t
                    try:
                        nmv = literal(nm) if not isinstance(nm, str) else nm
                    except AnalysisError:
                        nmv = None
                    out.append((kind, tname, nmv))
        return out

    n_inst = 0
    for fn, decs in overloads:
        for kind, tname, name in instances(fn, decs):
            if name is None or tname not in VTYPE_DIM:
                if tname not in VTYPE_DIM and name is not None:
                    continue
                ctx.ob("C07.overload-exists", f"{fn.name}@{fn.lineno}", False, "overload name is not a literal / resolvable from a name list", None, f"{NUMBA_OBJ}:{fn.lineno}")
                continue
            n_inst += 1
            dim = VTYPE_DIM[tname]
            mom = tname.startswith("Momentum")
            m = interp_method(dim, name, mom)
            cname = f"{tname}.{name}"
            if m is None:
                ctx.ob("C07.overload-exists", cname, False, "no interpreter method/property of that name for this dimension", None, f"{NUMBA_OBJ}:{fn.lineno}")
                continue
            ok = (kind == "attribute") == m.is_property
            msg = f"overload_{kind} but the interpreter {'property' if m.is_property else 'method'}"
            if ok and kind == "method":
                nparams = ["other" if a.arg == "v2" else a.arg for a in fn.args.args][1:]  # the second vector operand is spelled v2 in the overloads
                ok = nparams == m.params[1:]
                msg = f"parameters {nparams} differ from the interpreter's {m.params[1:]}"
                if ok:
                    ndef = {}
                    ds = fn.args.defaults
                    for a, dflt in zip(fn.args.args[len(fn.args.args) - len(ds):], ds):
                        ndef[a.arg] = unparse(dflt)
                    ok = all(ndef.get(k) == v for k, v in m.defaults.items()) and set(ndef) == set(m.defaults)
                    # float spellings 1e-05 vs 1e-5 are the same literal after unparse
                    msg = f"defaults {ndef} differ from the interpreter's {m.defaults}"
            ctx.ob("C07.overload-exists", cname, ok, msg, None, f"{NUMBA_OBJ}:{fn.lineno}", sample={"overload": cname, "params": m.params})
    ctx.anchor("overload instances", n_inst, 170)

    # ---- (2)-(3) lookups, coordinate binding, kernel arguments -----------------------------------
    n_fs = 0
    for fn, decs in overloads:
        insts = instances(fn, decs)
        lookups = [c for c in ast.walk(fn) if isinstance(c, ast.Call) and unparse(c.func) == "_from_signature" and len(c.args) == 3]
        if not lookups:
            continue
        n_fs += 1
        # signature tuples: direct tuple args and assignments to a variable named like the third argument
        sig_exprs = []
        for c in lookups:
            a = c.args[2]
            if isinstance(a, ast.Tuple):
                sig_exprs.append(a)
            elif isinstance(a, ast.Name):
                for st in ast.walk(fn):
                    if isinstance(st, ast.Assign) and isinstance(st.targets[0], ast.Name) and st.targets[0].id == a.id and isinstance(st.value, ast.Tuple):
                        sig_exprs.append(st.value)
        sigs = set()
        for t in sig_exprs:
            seq = []
            okt = True
            for el in t.elts:
                if isinstance(el, ast.Call) and unparse(el.func) in TYPEFN and len(el.args) == 1 and isinstance(el.args[0], ast.Name):
                    seq.append((TYPEFN[unparse(el.func)], el.args[0].id))
                elif isinstance(el, (ast.Name, ast.Constant, ast.Call, ast.Attribute)):
                    seq.append(("extra", unparse(el)))
                else:
                    okt = False
            if okt:
                sigs.add(tuple(seq))
        # module lookups
        for c in lookups:
            tab = c.args[1]
            if isinstance(tab, ast.Subscript) and isinstance(tab.value, ast.Subscript) and unparse(tab.value.value) == "numba_modules":
                gexpr, nexpr = tab.value.slice, tab.slice
                groups = [literal(gexpr)] if isinstance(gexpr, ast.Constant) else None
                names = [literal(nexpr)] if isinstance(nexpr, ast.Constant) else None
                if names is None:
                    # generated: name comes from the overload's own name (+ suffix)
                    names = []
                    for _, _, nm in insts:
                        if nm is None:
                            continue
                        if isinstance(nexpr, ast.BinOp) and isinstance(nexpr.right, ast.Constant):
                            names.append(nm + nexpr.right.value)
                        else:
                            names.append(nm)
                    names = sorted(set(names))
                for nm in names:
                    gs = groups or ["planar", "spatial", "lorentz"]
                    exists = [g for g in gs if f"vector._compute.{g}.{nm}" in L.mods]
                    ok = bool(exists) if groups is None else len(exists) == len(gs)
                    ctx.ob("C07.module-lookup", f"{fn.name}@{fn.lineno} -> {'|'.join(gs)}.{nm}", ok,
                           f"numba_modules[{unparse(gexpr)}][{unparse(nexpr)}] does not name an existing compute module", None, f"{NUMBA_OBJ}:{c.lineno}")
                    if ok and groups is not None:
                        # interpreter agreement: some instance's interpreter method dispatches to (group, name)
                        for kind, tname, oname in insts:
                            if oname is None or tname not in VTYPE_DIM:
                                continue
                            m = interp_method(VTYPE_DIM[tname], oname, tname.startswith("Momentum"))
                            if m is None or not m.sites:
                                continue
                            sites = {(s.group, s.module) for s in m.sites if not s.via_module_of}
                            if not sites:
                                continue
                            all_lookups = set()
                            for c2 in lookups:
                                t2 = c2.args[1]
                                if isinstance(t2, ast.Subscript) and isinstance(t2.value, ast.Subscript):
                                    g2 = t2.value.slice
                                    n2 = t2.slice
                                    if isinstance(g2, ast.Constant):
                                        if isinstance(n2, ast.Constant):
                                            all_lookups.add((g2.value, n2.value))
                                        elif isinstance(n2, ast.BinOp) and isinstance(n2.right, ast.Constant):
                                            all_lookups.add((g2.value, oname + n2.right.value))
                                        else:
                                            all_lookups.add((g2.value, oname))
                            okm = sites <= all_lookups or all_lookups <= sites
                            ctx.ob("C07.module-lookup", f"{tname}.{oname} vs interpreter", okm,
                                   f"overload looks up {sorted(all_lookups)}, the interpreter method dispatches to {sorted(sites)}", None, f"{NUMBA_OBJ}:{fn.lineno}")
        # coordinate getter definitions
        coorddefs = {}
        for st in ast.walk(fn):
            if isinstance(st, ast.Assign) and len(st.targets) == 1 and isinstance(st.targets[0], ast.Name) and isinstance(st.value, ast.Subscript) \
                    and unparse(st.value.value) in ("getcoord1", "getcoord2"):
                sl = st.value.slice
                if isinstance(sl, ast.Call) and unparse(sl.func) in TYPEFN and len(sl.args) == 1 and isinstance(sl.args[0], ast.Name):
                    coorddefs.setdefault(st.targets[0].id, set()).add((unparse(st.value.value)[-1], TYPEFN[unparse(sl.func)], sl.args[0].id))
        # kernel calls
        for c in ast.walk(fn):
            if isinstance(c, ast.Call) and isinstance(c.func, ast.Name) and c.func.id == "function" and c.args and unparse(c.args[0]) == "numpy":
                seq = []
                extras = []
                ok = True
                msg = ""
                seen_coord = False
                for a in c.args[1:]:
                    if isinstance(a, ast.Call) and isinstance(a.func, ast.Name) and a.func.id in coorddefs and len(a.args) == 1 and isinstance(a.args[0], ast.Name):
                        seen_coord = True
                        defs = coorddefs[a.func.id]
                        if len(defs) != 1:
                            ok, msg = False, f"{a.func.id} is bound inconsistently: {sorted(defs)}"
                            break
                        (j, x, var), = defs
                        if var != a.args[0].id:
                            ok, msg = False, f"{a.func.id} was built from operand `{var}` but is applied to `{a.args[0].id}`"
                            break
                        seq.append((j, x, var))
                    else:
                        if seen_coord:
                            ok, msg = False, f"scalar argument `{unparse(a)}` after coordinate arguments"
                            break
                        extras.append(unparse(a))
                gen_ = parent.get(id(fn))
                name = f"{gen_.name + '.' if gen_ is not None else ''}{fn.name}@{c.lineno}"
                ctx.ob("C07.coord-binding", name, ok, msg, None, f"{NUMBA_OBJ}:{c.lineno}", sample={"call": unparse(c)[:120]})
                if not ok:
                    continue
                # expand: az -> (1, 2), l -> (1), t -> (1)
                groups_seq = []
                i = 0
                okg = True
                while i < len(seq):
                    j, x, var = seq[i]
                    if x == "az":
                        if not (j == "1" and i + 1 < len(seq) and seq[i + 1] == ("2", "az", var)):
                            okg = False
                            break
                        groups_seq.append(("az", var))
                        i += 2
                    else:
                        if j != "1":
                            okg = False
                            break
                        groups_seq.append((x, var))
                        i += 1
                if not okg:
                    ctx.ob("C07.kernel-arguments", name, False, f"coordinate getters out of order: {seq}", None, f"{NUMBA_OBJ}:{c.lineno}")
                    continue
                cand = {tuple(p for p in s if p[0] != "extra") for s in sigs}
                okk = tuple(groups_seq) in cand
                ctx.ob("C07.kernel-arguments", name, okk,
                       f"kernel receives coordinates of {groups_seq}; signature tuples looked up in this overload: {sorted(cand)}", None, f"{NUMBA_OBJ}:{c.lineno}")
                # scalar order vs interpreter dispatch
                for kind, tname, oname in insts:
                    if oname is None or tname not in VTYPE_DIM:
                        continue
                    m = interp_method(VTYPE_DIM[tname], oname, tname.startswith("Momentum"))
                    if m is None or len(m.sites) != 1 or m.sites[0].via_module_of:
                        continue
                    vecs = {"self", "other"} | {p for p in m.params if p in ("axis", "p4", "beta3", "booster")}
                    # constants and expressions among the dispatch arguments (the "zyx" of rotate_nautical, order.lower()) select the kernel; the scalars fed to it are the parameters
                    want = [a for a in m.sites[0].args if a.split(".")[0] not in vecs and a.isidentifier()]
                    if want and extras and all(e.isidentifier() for e in extras):
                        ctx.ob("C07.kernel-arguments", f"{tname}.{oname} scalars@{c.lineno}", extras == want,
                               f"scalars passed {extras}, interpreter dispatch passes {want}", None, f"{NUMBA_OBJ}:{c.lineno}")
                    break
    ctx.anchor("overloads with table lookups", n_fs, 32)

    # ---- (4) getcoord tables ------------------------------------------------------------------------
    fields = {"AzimuthalXY": ("x", "y"), "AzimuthalRhoPhi": ("rho", "phi"), "LongitudinalZ": ("z",), "LongitudinalTheta": ("theta",),
              "LongitudinalEta": ("eta",), "TemporalT": ("t",), "TemporalTau": ("tau",)}
    grp = {"Azimuthal": "azimuthal", "Longitudinal": "longitudinal", "Temporal": "temporal"}
    for tabname, idx in (("getcoord1", 0), ("getcoord2", 1)):
        node = nf.assigns.get(tabname)
        if not isinstance(node, ast.Dict):
            raise AnalysisError(f"anchor {tabname} missing")
        for k, v in zip(node.keys, node.values):
            cname = unparse(k)
            fnode = nf.functions.get(unparse(v))
            body = unparse(fnode.body[-1]) if fnode is not None else None
            g = next(gv for gk, gv in grp.items() if cname.startswith(gk))
            want = f"return v.{g}.{fields[cname][idx]}" if idx < len(fields[cname]) else None
            ctx.ob("C07.getcoord-tables", f"{tabname}[{cname}]", body == want, f"getter body `{body}`, expected `{want}`", None, NUMBA_OBJ)
        want_keys = sorted(k for k, f in fields.items() if len(f) > idx)
        ctx.ob("C07.getcoord-tables", f"{tabname} keys", sorted(unparse(k) for k in node.keys) == want_keys, f"keys {sorted(unparse(k) for k in node.keys)}", None, NUMBA_OBJ)

    # ---- (5) flavor and dimension -------------------------------------------------------------------
    from ..peval import BACKEND_FILES
    W.mods["vector.backends._numba_object"] = nf
    I0 = Interp(W)
    flav = FuncVal(nf.functions["flavor_of"], "vector.backends._numba_object")
    dimf = FuncVal(nf.functions["dimension_of"], "vector.backends._numba_object")
    # module environment for the numba file: only the names these two helpers use
    env = W.module_env("vector.backends._numba_object")
    env.update({"Momentum": W.classes["Momentum"]})
    for d in (2, 3, 4):
        tcls = ClassVal(f"VectorObject{d}DType", "vector.backends._numba_object", nf.classes[f"VectorObject{d}DType"], W)
        mcls = ClassVal(f"MomentumObject{d}DType", "vector.backends._numba_object", nf.classes[f"MomentumObject{d}DType"], W)
        W.classes.setdefault(tcls.name, tcls)
        W.classes.setdefault(mcls.name, mcls)
        env[tcls.name] = tcls
        env[mcls.name] = mcls
    for d in (2, 3, 4):
        for f1 in ("Vector", "Momentum"):
            for f2 in ("Vector", "Momentum"):
                v1 = Inst(W.classes[f"{f1}Object{d}DType"], {"instance_class": W.classes[f"{f1}Object{d}D"]}, origin="abstract")
                v2 = Inst(W.classes[f"{f2}Object{d}DType"], {"instance_class": W.classes[f"{f2}Object{d}D"]}, origin="abstract")
                I = Interp(W)
                try:
                    r = I.call_function(flav, [v1, v2], {})
                    got = r.name if isinstance(r, ClassVal) else repr(r)
                except (PyRaise, Undecided) as e:
                    got = f"{type(e).__name__}: {e}"
                mom = "Momentum" in (f1, f2)
                want = f"{'Momentum' if mom else 'Vector'}Object{d}D"
                ctx.ob("C07.flavor", f"flavor_of({f1}Object{d}D, {f2}Object{d}D)", got == want,
                       f"numba result flavor class {got}; the interpreter's _flavor_of gives {want} (momentum iff any operand is)",
                       {"numba": got, "interpreter": want}, f"{NUMBA_OBJ}:{nf.functions['flavor_of'].lineno}")
        I = Interp(W)
        r = I.call_function(dimf, [Inst(W.classes[f"MomentumObject{d}DType"], {}, origin="abstract")], {})
        ctx.ob("C07.dimension", f"dimension_of({d}D)", r == d, f"returns {r}", None, NUMBA_OBJ)
    bm = nf.functions.get("add_binary_method")
    if bm is None:
        raise AnalysisError("anchor add_binary_method missing")
    checked = set()
    for node in ast.walk(bm):
        if isinstance(node, ast.If) and "dimension_of(v1) != dimension_of(v2)" in unparse(node.test) and any(isinstance(x, ast.Raise) for x in node.body):
            for sub in ast.walk(node.test):
                if isinstance(sub, ast.Compare) and isinstance(sub.ops[0], ast.In) and unparse(sub.left) == "methodname":
                    checked |= set(literal(sub.comparators[0]))
    general = literal(nf.assigns["general_binary_methods"])
    for name in general:
        m = interp_method(3, name)
        needs = m is not None and any(any(g.startswith("_maybe_same_dimension_error(self, other") for g in s.guards) for s in m.sites)
        ctx.ob("C07.dimension", f"binary method {name}: different dimensions", (name in checked) == needs,
               f"the interpreter {'raises TypeError' if needs else 'accepts'} operands of different dimension; the numba overload "
               f"{'raises TypingError' if name in checked else 'silently computes in the smaller dimension'}", None, f"{NUMBA_OBJ}:{bm.lineno}")

    # ---- (6) registration ---------------------------------------------------------------------------------
    nb = facts("src/vector/backends/_numba.py", ctx.repo)
    src = unparse(nb.tree)
    need = ["for groupname, module in names_and_modules:", "for key, value in submodule.dispatch_map.items():",
            "numba_modules[groupname][modname][key] = (function, *returns)", "numba.extending.register_jitable(function)"]
    ctx.ob("C07.registration", "_numba.py", all(x in src for x in need), f"missing constructs: {[x for x in need if x not in src]}", None, "src/vector/backends/_numba.py")
    nm = literal(nb.assigns["names_and_modules"]) if False else unparse(nb.assigns["names_and_modules"])
    ctx.ob("C07.registration", "names_and_modules", all(f"('{g}', vector._compute.{g})" in nm for g in ("planar", "spatial", "lorentz")), f"is {nm}", None, "src/vector/backends/_numba.py")

    # ---- (7) obj overload ----------------------------------------------------------------------------------------
    vo = nf.functions.get("vector_obj")
    params = [a.arg for a in vo.args.args] if vo is not None else []
    ctx.ob("C07.obj-overload", "vector_obj parameters", params[1:] == NAMES19 and params[:1] == ["unrecognized_argument"], f"parameters {params}", None, NUMBA_OBJ)
    _type_identity(ctx, nf)
    _composite_overloads(ctx, nf, overloads, instances)
    _literal_arguments(ctx, W, nf, overloads)
    _obj_agreement(ctx, W, nf)
    # ---- (8) Awkward-Numba typers ---------------------------------------------------------------------------------
    import itertools
    from ..peval import BUILTINS
    from ..ufuncs import extract_awkward_behaviors
    ctx.rule("C07.awkward-typer", "_numba_typer_<Name> builds <Flavor>Object<N>DType from _aztype_of/_ltype_of/_ttype_of with is_momentum = (Flavor is Momentum), and is registered for that record name")
    ctx.rule("C07.awkward-typer-fields", "_aztype_of/_ltype_of/_ttype_of pick, for every subset of a group's field names, the coordinate class the interpreter picks (first complete of x-y | rho-phi, z | theta | eta, t | tau), with components from spellings of its own coordinates (synonyms only when is_momentum), else TypingError")
    af = facts("src/vector/backends/awkward.py", ctx.repo)
    tab = extract_awkward_behaviors(ctx.repo)
    for flavor in ("Vector", "Momentum"):
        for d in (2, 3, 4):
            name = f"{flavor}{d}D"
            fn = af.functions.get(f"_numba_typer_{name}")
            if fn is None:
                raise AnalysisError(f"anchor _numba_typer_{name} missing")
            ret = [n for n in ast.walk(fn) if isinstance(n, ast.Return)]
            flag = "True" if flavor == "Momentum" else "False"
            want_args = [f"{h}(viewtype.arrayviewtype.type, {flag})" for h in ("_aztype_of", "_ltype_of", "_ttype_of")[: d - 1]]
            ok = len(ret) == 1 and isinstance(ret[0].value, ast.Call) and unparse(ret[0].value.func) == f"vector.backends._numba_object.{flavor}Object{d}DType" \
                and [unparse(a) for a in ret[0].value.args] == want_args
            ctx.ob("C07.awkward-typer", f"_numba_typer_{name}", ok,
                   f"returns `{unparse(ret[0].value)[:160] if ret else None}`; expected {flavor}Object{d}DType({', '.join(want_args)})", None, f"src/vector/backends/awkward.py:{fn.lineno}")
            ent = tab.get(("'__numba_typer__'", repr(name)))
            ctx.ob("C07.awkward-typer", f"behavior['__numba_typer__', {name!r}]", ent is not None and ent[1] == f"_numba_typer_{name}", f"is {ent[1] if ent else None}", None, "src/vector/backends/awkward.py")
            ent = tab.get(("'__numba_lower__'", repr(name)))
            ctx.ob("C07.awkward-typer", f"behavior['__numba_lower__', {name!r}]", ent is not None and ent[1] == "_numba_lower", f"is {ent[1] if ent else None}", None, "src/vector/backends/awkward.py")
    SYN = {"px": "x", "py": "y", "pt": "rho", "pz": "z", "E": "t", "e": "t", "energy": "t", "M": "tau", "m": "tau", "mass": "tau"}
    groups = {
        "_aztype_of": (["x", "px", "y", "py", "rho", "pt", "phi"], {"AzimuthalObjectXY": ("x", "y"), "AzimuthalObjectRhoPhi": ("rho", "phi")}),
        "_ltype_of": (["z", "pz", "theta", "eta"], {"LongitudinalObjectZ": ("z",), "LongitudinalObjectTheta": ("theta",), "LongitudinalObjectEta": ("eta",)}),
        "_ttype_of": (["t", "E", "e", "energy", "tau", "M", "m", "mass"], {"TemporalObjectT": ("t",), "TemporalObjectTau": ("tau",)}),
    }
    envA = W.module_env("vector.backends.awkward")
    BUILTINS["__arrtype__"] = lambda I, a, k, n: Opaque(("arrtype", a[0].tag if isinstance(a[0], Opaque) else repr(a[0])), "notnone")
    saved = envA.get("_arraytype_of")
    envA["_arraytype_of"] = ("builtin", "__arrtype__")
    try:
        for fname, (gnames, classes) in groups.items():
            f = W.lookup_global("vector.backends.awkward", fname, I0)
            n_sub = 0
            for k in range(0, len(gnames) + 1):
                for S in itertools.combinations(gnames, k):
                    for mom in (False, True):
                        n_sub += 1
                        got = []
                        I = Interp(W, ext_models={"numba.typeof": lambda I, a, k: (got.append(a[0]) or Opaque("typ"))})
                        rt = Inst(W.classes["VectorArray4D"], {"fields": list(S), "contenttypes": [Opaque(("ct", n)) for n in S], "__name__": "rt"}, origin="abstract")
                        avail = {}
                        for n in S:
                            g = SYN.get(n, n) if mom else n
                            avail.setdefault(g, []).append(n)
                        complete = [c for c, fs in classes.items() if all(x in avail for x in fs)]
                        key = f"{fname}[{','.join(S) or '(none)'}; is_momentum={mom}]"
                        try:
                            I.call_function(f, [rt, mom], {})
                            inst = got[0] if got else None
                            # when several coordinate sets are complete the interpreter (…Awkward.from_fields / from_momentum_fields)
                            # takes the first of x-y | rho-phi, z | theta | eta, t | tau: compiled code must see the same vector
                            ok = isinstance(inst, Inst) and bool(complete) and inst.cls.name == complete[0]
                            msg = f"builds {inst!r}; complete coordinate sets available (interpreter's priority first): {complete}"
                            if ok:
                                for fld in classes[inst.cls.name]:
                                    v = inst.attrs.get(fld)
                                    src = None
                                    t = v.tag if isinstance(v, Opaque) else None
                                    while isinstance(t, tuple):
                                        if t and t[0] == "ct":
                                            src = t[1]
                                            break
                                        t = next((x for x in t[1:] if isinstance(x, tuple)), None)
                                    if src not in avail.get(fld, []):
                                        ok = False
                                        msg = f"{inst.cls.name}.{fld} is typed from field {src!r}, not a spelling of {fld}"
                        except PyRaise as e:
                            ok = not complete and e.exc.endswith("TypingError")
                            msg = f"raises {e.exc} although {complete} is available" if complete else f"raises {e.exc}"
                        except Undecided as e:
                            ok, msg = False, f"undecided: {e}"
                        ctx.ob("C07.awkward-typer-fields", key, ok, msg, None, "src/vector/backends/awkward.py")
            ctx.anchor(f"{fname} subsets", n_sub, 2 ** len(gnames) * 2)
    finally:
        envA["_arraytype_of"] = saved
    ctx.decline("Numba typing/lowering/boxing/unboxing, LLVM code generation")
    ctx.decline("result wrapping inside each overload beyond flavor/dimension helpers; the Awkward-Numba typer and lowering")


def _type_identity(ctx, nf):
    """Numba identifies a type by its name: the name must spell the class and every type parameter"""
    ctx.rule("C07.type-identity", "every numba.types.Type subclass of _numba_object.py names itself with an f-string that starts with its own class name and interpolates every "
                                  "parameter of __init__: Numba interns types by name, so a parameter left out makes two different coordinate-system types one and the same "
                                  "(the second signature compiled in a process silently runs with the first one's layout)")
    bases = {c: [unparse(b) for b in node.bases] for c, node in nf.classes.items()}

    def is_type(c, seen=()):
        if c in seen:
            return False
        return any(b.endswith("types.Type") or is_type(b, (*seen, c)) for b in bases.get(c, []))

    n = 0
    for cname, cnode in nf.classes.items():
        if not is_type(cname):
            continue
        init = next((st for st in cnode.body if isinstance(st, ast.FunctionDef) and st.name == "__init__"), None)
        if init is None:
            continue
        n += 1
        params = [a.arg for a in init.args.args][1:]
        names = []
        for sub in ast.walk(init):
            if isinstance(sub, ast.keyword) and sub.arg == "name":
                names.append(sub.value)
            elif isinstance(sub, ast.Assign) and any(unparse(t) == "self.name" for t in sub.targets):
                names.append(sub.value)
        msg = ""
        if not names:
            msg = "no name= / self.name in __init__"
        else:
            v = names[-1]  # the assignment that wins
            if not isinstance(v, ast.JoinedStr):
                msg = f"name is `{unparse(v)[:80]}`, expected an f-string of the class name and the parameters"
            else:
                lit = "".join(p.value for p in v.values if isinstance(p, ast.Constant) and isinstance(p.value, str))
                used = {nm.id for p in v.values if isinstance(p, ast.FormattedValue) for nm in ast.walk(p.value) if isinstance(nm, ast.Name)}
                missing = [p_ for p_ in params if p_ not in used]
                if not lit.startswith(cname):
                    msg = f"name starts with `{lit[:40]}`, not with the class name {cname}"
                elif missing:
                    msg = f"the name leaves out the type parameter(s) {missing}: types that differ only there would be interned as one"
        ctx.ob("C07.type-identity", cname, not msg, msg, None, f"{NUMBA_OBJ}:{cnode.lineno}")
    ctx.anchor("numba type classes", n, 6)


# ---- composite overloads: written in terms of other methods, no kernel table lookup ------------------------------------
_ISA_DIM = {"Vector2D": 2, "Vector3D": 3, "Vector4D": 4, "VectorObject2DType": 2, "VectorObject3DType": 3, "VectorObject4DType": 4,
            "VectorObject2D": 2, "VectorObject3D": 3, "VectorObject4D": 4}


class _Canon:
    """normal form of forwarding expressions: every `recv.name(args)` / `recv.name` on the vector itself and every `<module>.dispatch(...)` becomes
    ('dispatch', group, module, args) by resolving trivial forwarders of the interpreter's method layer; parameters are named by position"""

    def __init__(self, dim, momentum, imports=None):
        self.dim, self.momentum, self.imports = dim, momentum, imports or {}

    def expr(self, node, pmap, depth=0):
        if isinstance(node, ast.Name):
            return pmap.get(node.id, ("name", node.id))
        if isinstance(node, ast.Constant):
            return ("const", float(node.value) if isinstance(node.value, (int, float)) and not isinstance(node.value, bool) else node.value)
        if isinstance(node, ast.UnaryOp) and isinstance(node.op, ast.USub) and isinstance(node.operand, ast.Constant) and isinstance(node.operand.value, (int, float)):
            return ("const", -float(node.operand.value))
        if isinstance(node, ast.Attribute):
            recv = self.expr(node.value, pmap, depth)
            return None if recv is None else self.method(node.attr, recv, (), depth)
        if isinstance(node, ast.Call) and isinstance(node.func, ast.Attribute) and not node.keywords:
            args = [self.expr(a, pmap, depth) for a in node.args]
            if any(a is None for a in args):
                return None
            if node.func.attr == "dispatch" and isinstance(node.func.value, ast.Name):
                imp = self.imports.get(node.func.value.id)
                if imp is None:
                    return None
                return ("dispatch", imp[0], imp[1], tuple(args))
            recv = self.expr(node.func.value, pmap, depth)
            return None if recv is None else self.method(node.func.attr, recv, tuple(args), depth)
        return None

    def method(self, name, recv, args, depth):
        plain = ("call", name, recv, args)
        if recv != "p0" or depth > 3:
            return plain
        m = interp_method(self.dim, name, self.momentum)
        if m is None:
            return plain
        body = [st for st in strip_docstring(m.fn.body) if not isinstance(st, (ast.ImportFrom, ast.Import))
                and not (isinstance(st, ast.If) and not st.orelse and len(st.body) == 1 and isinstance(st.body[0], ast.Raise))]  # rejection guards do not change the target
        if len(body) != 1 or not isinstance(body[0], ast.Return) or body[0].value is None or len(m.params) != 1 + len(args):
            return plain
        pm = dict(zip(m.params, (recv, *args)))
        sub = _Canon(self.dim, self.momentum, m.imports).expr(body[0].value, pm, depth + 1)
        return plain if sub is None else sub


def _canon_cond(test, pmap):
    """isinstance(param, <vector class of dimension N>) -> ('isa', pK, N); anything else -> None"""
    neg = False
    if isinstance(test, ast.UnaryOp) and isinstance(test.op, ast.Not):
        neg, test = True, test.operand
    if isinstance(test, ast.Call) and unparse(test.func) == "isinstance" and len(test.args) == 2 and isinstance(test.args[0], ast.Name) \
            and test.args[0].id in pmap and isinstance(test.args[1], ast.Name) and test.args[1].id in _ISA_DIM:
        return ("not-isa" if neg else "isa", pmap[test.args[0].id], _ISA_DIM[test.args[1].id])
    return None


def _branches(body, pmap, path, out, numba_side, canon):
    """[(frozenset(path conditions), canonical return | ('raise',))] of an if/elif/else chain whose leaves return/raise (numba: define an impl)"""
    impl = None
    for st in body:
        if isinstance(st, (ast.ImportFrom, ast.Import)) or (isinstance(st, ast.Expr) and isinstance(st.value, ast.Constant)):
            continue
        if isinstance(st, ast.If):
            c = _canon_cond(st.test, pmap)
            if c is None:
                return False
            if not _branches(st.body, pmap, path + [c], out, numba_side, canon):
                return False
            neg = ("not-isa" if c[0] == "isa" else "isa", c[1], c[2])
            if st.orelse:
                if not _branches(st.orelse, pmap, path + [neg], out, numba_side, canon):
                    return False
                continue
            path = path + [neg]
            continue
        if isinstance(st, ast.Raise):
            out.append((frozenset(path), ("raise",)))
            return True
        if numba_side and isinstance(st, ast.FunctionDef):
            impl = st
            rets = [s for s in st.body if not (isinstance(s, ast.Expr) and isinstance(s.value, ast.Constant))]
            if len(rets) != 1 or not isinstance(rets[0], ast.Return) or rets[0].value is None:
                return False
            ipmap = {a.arg: f"p{i}" for i, a in enumerate(st.args.args)}
            e = canon.expr(rets[0].value, ipmap)
            if e is None:
                return False
            out.append((frozenset(path), e))
            continue
        if isinstance(st, ast.Return):
            if numba_side:
                if isinstance(st.value, ast.Name) and impl is not None and st.value.id == impl.name:
                    return True
                if isinstance(st.value, ast.Name):
                    continue  # `return impl` after an if/else that defined it in every branch
                return False
            e = canon.expr(st.value, pmap) if st.value is not None else None
            if e is None:
                return False
            out.append((frozenset(path), e))
            return True
        return False
    return True


def _simplify(branches):
    """drop negative conditions implied by a positive one on the same parameter; keep raise leaves out of the comparison key"""
    out = {}
    for path, leaf in branches:
        pos = {(p, d) for k, p, d in path if k == "isa"}
        key = frozenset(("isa", p, d) for p, d in pos) | frozenset(c for c in path if c[0] == "not-isa" and not any(p == c[1] for p, _ in pos))
        out[key] = leaf
    return out


def _composite_overloads(ctx, nf, overloads, instances):
    ctx.rule("C07.composite-overloads", "an overload written in terms of other methods (no kernel table lookup: boost, boostCM_of*, negND, the momentum-named attributes ...) forwards, "
                                        "branch by branch on the operand's dimension, to the same method with the same arguments as the interpreter's method of that name")
    n = 0
    for fn, decs in overloads:
        src = unparse(fn)
        if "_from_signature" in src or "numba_modules" in src:
            continue
        for kind, tname, name in instances(fn, decs):
            if name is None or tname not in VTYPE_DIM:
                continue
            m = interp_method(VTYPE_DIM[tname], name, tname.startswith("Momentum"))
            if m is None:
                continue
            pm_n = {a.arg: f"p{i}" for i, a in enumerate(fn.args.args)}
            nb = []
            dim, mom = VTYPE_DIM[tname], tname.startswith("Momentum")
            if not _branches(fn.body, pm_n, [], nb, True, _Canon(dim, mom)) or not nb:
                continue
            pm_i = {a: f"p{i}" for i, a in enumerate(m.params)}
            ib = []
            if not _branches(strip_docstring(m.fn.body), pm_i, [], ib, False, _Canon(dim, mom, m.imports)) or not ib:
                continue
            a, b = _simplify(nb), _simplify(ib)
            # the interpreter's final `else: raise` corresponds to numba's TypingError leaf; compare the forwarding leaves
            fa = {k: v for k, v in a.items() if v != ("raise",)}
            fb = {k: v for k, v in b.items() if v != ("raise",)}
            n += 1
            ok = fa == fb
            ctx.ob("C07.composite-overloads", f"{tname}.{name}", ok,
                   f"compiled code forwards {sorted(map(repr, fa.items()))}; the interpreter method forwards {sorted(map(repr, fb.items()))}",
                   {"numba": sorted(map(repr, fa.items())), "interpreter": sorted(map(repr, fb.items()))}, f"{NUMBA_OBJ}:{fn.lineno}")
    ctx.anchor("composite overloads compared with the interpreter", n, 40)


def _literal_arguments(ctx, W, nf, overloads):
    """a string argument that selects a kernel at typing time (the Euler order) must be read as a compile-time literal"""
    from ..peval import EXT_KINDS
    ctx.rule("C07.literal-order", "rotate_euler's `order` selects the kernel while the overload is typed: a Python str is used as is, a StringLiteral type contributes its literal_value, and a "
                                  "non-literal string type raises TypingError (which makes Numba retry with the literal type) - otherwise compiled code silently uses one fixed order")
    EXT_KINDS.setdefault("nb_stringliteral", {"numba.types.StringLiteral", "numba.types.Literal"})
    EXT_KINDS.setdefault("nb_unicodetype", {"numba.types.UnicodeType"})
    found = 0
    for fn, decs in overloads:
        params = [a.arg for a in fn.args.args]
        if "order" not in params or "_from_signature" not in unparse(fn):
            continue
        # statements executed before the lookup, in the statement list that holds the lookup
        holder = None
        for node in ast.walk(fn):
            for field in ("body", "orelse"):
                lst = getattr(node, field, None)
                if isinstance(lst, list):
                    for i, st in enumerate(lst):
                        if isinstance(st, ast.Assign) and isinstance(st.value, ast.Call) and unparse(st.value.func) == "_from_signature":
                            holder = (lst, i, st)
        if holder is None:
            continue
        lst, i, lookup = holder
        key = lookup.value.args[2] if len(lookup.value.args) > 2 else None
        if not isinstance(key, ast.Tuple):
            continue
        sel = [e for e in key.elts if not (isinstance(e, ast.Call) and unparse(e.func) in TYPEFN)]
        if len(sel) != 1:
            continue
        found += 1
        pre = [st for st in lst[:i] if any(isinstance(x, ast.Name) and x.id == "order" for x in ast.walk(st))]
        synth = ast.FunctionDef(name="_order_prelude", args=ast.arguments(posonlyargs=[], args=[ast.arg(arg="order")], kwonlyargs=[], kw_defaults=[], defaults=[]),
                                body=[*pre, ast.Return(value=sel[0])], decorator_list=[], lineno=fn.lineno, col_offset=0)
        ast.fix_missing_locations(synth)
        fv = FuncVal(synth, "vector.backends._numba_object")
        cases = []
        for o in ("zxz", "yzx"):
            cases.append((f"str {o!r}", o, {}, o))
            lit = Opaque("order_literal_" + o, "nb_stringliteral")
            cases.append((f"StringLiteral({o!r})", lit, {lit.tag: {"literal_value": o, "__closed__": True}}, o))
        nl = Opaque("order_unicode_type", "nb_unicodetype")
        cases.append(("non-literal unicode_type", nl, {nl.tag: {"__closed__": True}}, "raise"))
        for label, val, oa, want in cases:
            I = Interp(W, opaque_attrs=oa)
            try:
                got = I.call_function(fv, [val], {})
                ok = want != "raise" and got == want
                msg = f"the kernel is selected with order = {got!r}" + ("; must raise TypingError so that Numba retries with the literal type" if want == "raise" else f", the caller asked for {want!r}")
            except PyRaise as e:
                ok = want == "raise" and "TypingError" in str(e.exc)
                msg = f"raises {e.exc}"
            except Undecided as e:
                ctx.decline(f"C07.literal-order {fn.name} [{label}]: {e}")
                continue
            ctx.ob("C07.literal-order", f"{fn.name}[{label}]", ok, msg, {"order": label}, f"{NUMBA_OBJ}:{fn.lineno}")
    ctx.anchor("overloads selecting a kernel by a string argument", found, 1)


# ---- vector.obj inside compiled code ---------------------------------------------------------------------------------------
def _shape(r):
    if isinstance(r, Inst):
        return (r.cls.name, tuple(sorted((k, _shape(v)) for k, v in r.attrs.items() if not k.startswith("__"))))
    if isinstance(r, Opaque):
        return ("value", r.tag)
    if isinstance(r, (tuple, list)):
        return tuple(_shape(x) for x in r)
    return repr(r)


def _obj_agreement(ctx, W, nf):
    """interpret the typing function of the vector.obj overload and the implementation it returns, and the interpreter's vector.obj, on every small set of names"""
    import itertools
    ctx.rule("C07.obj-agreement", "for every set of up to 4 (thorough: 5) of the 19 coordinate names, vector.obj inside compiled code (the overload's typing function, then the implementation "
                                  "it returns, interpreted abstractly on opaque value tokens) builds the vector the interpreter's vector.obj builds - same class, each value token in the same "
                                  "slot - and raises TypingError exactly where the interpreter raises TypeError")
    vo = nf.functions.get("vector_obj")
    if vo is None:
        raise AnalysisError("anchor vector_obj overload missing")
    fv = FuncVal(vo, "vector.backends._numba_object")
    names = [a.arg for a in vo.args.args][1:]
    obj = W.lookup_global("vector.backends.object", "obj", Interp(W))
    maxk = 5 if ctx.tier == "thorough" else 4
    n = bad = 0
    for k in range(0, maxk + 1):
        for S in itertools.combinations(names, k):
            n += 1
            try:
                I = Interp(W)
                try:
                    impl = I.call_function(fv, [], {x: Opaque("type_" + x, "notnone") for x in S})
                    vals = {x: Opaque("v_" + x, "real") for x in S}
                    a = _shape(I.call(impl, [], {x: vals.get(x) for x in names}))
                except PyRaise as e:
                    a = ("raises", "TypingError" if "TypingError" in str(e.exc) else str(e.exc))
                I = Interp(W)
                try:
                    b = _shape(I.call(obj, [], {x: Opaque("v_" + x, "real") for x in S}))
                except PyRaise as e:
                    b = ("raises", str(e.exc))
            except Undecided as e:
                raise AnalysisError(f"C07.obj-agreement: name set {S} could not be interpreted: {e}") from None
            ok = a == b or (a[0] == "raises" and b[0] == "raises" and a[1] == "TypingError" and b[1] == "TypeError")
            if not ok:
                bad += 1
                ctx.ob("C07.obj-agreement", f"vector.obj({', '.join(S)})", False,
                       f"compiled code gives {a if a[0] == 'raises' else a[0]}, the interpreter {b if b[0] == 'raises' else b[0]}", {"numba": repr(a)[:400], "interpreter": repr(b)[:400]},
                       f"{NUMBA_OBJ}:{vo.lineno}")
    c = ctx.rule_counts.setdefault("C07.obj-agreement", [0, 0])
    c[0] += n - bad
    c[1] += n - bad
    ctx.constructs.add(f"C07.obj-agreement::<{n} name sets>")
    ctx.anchor("vector.obj name sets compared", n, 5036)
