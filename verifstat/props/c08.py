"""C08 — SymPy expressions agree with the numeric backends (structural clauses)."""
from __future__ import annotations

import ast
import itertools

from .. import ir, wrappers as wr, objmodel as om
from ..core import AnalysisError
from ..entries import all_entries
from ..loader import facts, fn_where, link, unparse
from ..peval import Inst, Interp, Opaque, PyRaise, World
from ..ufuncs import dunder_obligations, table_obligations
from .c03 import self_class_combos

LEVEL = "other"
EXPLANATION = (
    "The SymPy backend reuses the numeric compute functions with lib = SympyLib(), so agreement reduces to: "
    "(1) coverage: every lib.<name> used anywhere in the compute layer (collected by inlining all 2404 table "
    "entries) is a member of SympyLib; (2) meaning: each SympyLib method returns the SymPy function the frozen "
    "correspondence names (arctan2 -> atan2, absolute -> Abs, arcsinh -> asinh, ...) applied to its parameters in "
    "order; the documented exceptions are exactly nan_to_num (identity), maximum/minimum (keep the expression "
    "operand), copysign (first operand), isclose (Eq), sign (numpy.sign), inf, pi - any other deviation is "
    "reported; (3) same kernels and wrapping: VectorSympy.lib is SympyLib(), the SymPy classes' elements order, "
    "_wrap_result summaries for every `returns` shape, setters, _replace_data, operator methods and the ufunc "
    "table equal the object backend's (decided with the same abstract interpreter as C03/C05/C15, restricted to "
    "the SymPy classes).  Not decided: SymPy's own evaluation/simplification, numerical agreement after subs(), "
    "the clamping/NaN conventions SympyLib documents it cannot express."
)

CORRESPONDENCE = {
    "arcsin": "asin", "arccos": "acos", "arctan": "atan", "arctan2": "atan2", "arcsinh": "asinh", "arccosh": "acosh", "arctanh": "atanh",
    "absolute": "Abs", "sqrt": "sqrt", "exp": "exp", "log": "log", "sin": "sin", "cos": "cos", "tan": "tan", "sinh": "sinh", "cosh": "cosh", "tanh": "tanh",
}
EXCEPTIONS = {
    "nan_to_num": "return val",
    "maximum": "return val1 if isinstance(val1, sympy.Expr) else val2",
    "minimum": "return val1 if isinstance(val1, sympy.Expr) else val2",
    "copysign": "return val1",
    "isclose": "return sympy.Eq(val1, val2)",
    "sign": "return numpy.sign(val)",
    "inf": "return sympy.oo",
    "pi": "return sympy.pi",
}


def run(ctx):
    L = link(ctx.repo)
    W = World(ctx.repo)
    ctx.rule("C08.lib-coverage", "every lib.<name> used in the compute layer is provided by SympyLib")
    ctx.rule("C08.lib-meaning", "SympyLib.<name> returns the corresponding SymPy function of its parameters in order; deviations are exactly the documented ones")
    ctx.rule("C08.lib-binding", "VectorSympy.lib is SympyLib() and the SymPy classes reach compute code only through dispatch")
    ctx.rule("C08.wrap", "VectorSympy2D/3D/4D._wrap_result summaries equal the specification (hence the object backend's)")
    ctx.rule("C08.setters", "SymPy setters and _replace_data build the same coordinate objects as the object backend's")
    ctx.rule("C08.operators", "SymPy operator methods and __array_ufunc__ table equal the documented operator map")

    inl = ir.Inliner()
    for e in all_entries(L):
        inl.inline(e.fn, e.args())
    used = set(inl.lib_names)
    attrs = set()
    for fn in inl.visited_fns:
        pass
    # lib attributes (lib.pi, lib.inf) appear as libattr nodes
    for node in list(ir.Node._table.values()):
        if node.kind == "libattr":
            attrs.add(node.a[0])
    lf = facts("src/vector/_lib.py", ctx.repo)
    if "SympyLib" not in lf.classes:
        raise AnalysisError("anchor SympyLib missing")
    members = {}
    for st in lf.classes["SympyLib"].body:
        if isinstance(st, ast.FunctionDef):
            members[st.name] = st
    ctx.anchor("lib functions used by the compute layer", len(used), 15)
    for name in sorted(used | attrs):
        ctx.ob("C08.lib-coverage", f"lib.{name}", name in members, "used by a compute function but missing from SympyLib", None, "src/vector/_lib.py",
               sample={"lib_name": name})
    # meaning of each member, decided by interpreting it on a symbolic expression / a plain number (not by its text)
    from ..peval import External, FuncVal as _FV, Undecided as _Und

    slib = W.classes.get("SympyLib")
    if slib is None:
        raise AnalysisError("anchor class SympyLib missing")
    EXPR, NUM = Opaque("expr1", "sympyexpr"), Opaque("num1", "real")
    EXPR2 = Opaque("expr2", "sympyexpr")

    def call_member(name_, args):
        fnode, cv = W.find_method("SympyLib", name_)
        inst = Inst(slib, {}, origin="abstract")
        I = Interp(W)
        try:
            return I.call_function(_FV(fnode, cv.module, bound=inst, owner=cv), list(args), {})
        except PyRaise as e:
            return ("raise", e.exc)
        except _Und as e:
            return ("undecided", str(e))

    def is_call(v, dotted, args):
        t = v.tag if isinstance(v, Opaque) else None
        if not (isinstance(t, tuple) and len(t) >= 3 and t[0] in ("call", "extcall")):
            return False
        f = t[1]
        fname = f.name if isinstance(f, External) else str(f)
        got_args = t[2]
        kw = t[3] if len(t) > 3 else ()
        return fname == dotted and not kw and len(got_args) == len(args) and all(a is b for a, b in zip(got_args, args))

    for name, fn in members.items():
        params = [a.arg for a in fn.args.args][1:]
        is_prop = any(unparse(d) == "property" for d in fn.decorator_list)
        msg = ""
        if name in CORRESPONDENCE:
            args = [EXPR, EXPR2][: len(params)]
            r = call_member(name, args)
            if not is_call(r, "sympy." + CORRESPONDENCE[name], args):
                msg = f"SympyLib.{name}({', '.join(params)}) evaluates to {r!r}; expected sympy.{CORRESPONDENCE[name]} of its parameters in order"
        elif name in ("maximum", "minimum"):
            r1, r2, r3 = call_member(name, [EXPR, NUM]), call_member(name, [NUM, EXPR]), call_member(name, [EXPR, EXPR2])
            if not (r1 is EXPR and r2 is EXPR and r3 is EXPR):
                msg = f"documented deviation: the first argument if it is an expression, else the second; got {r1!r}, {r2!r}, {r3!r} for (expr, number), (number, expr), (expr, expr2)"
        elif name == "copysign":
            r = call_member(name, [EXPR, EXPR2])
            if r is not EXPR:
                msg = f"documented deviation: copysign(a, b) returns a; got {r!r}"
        elif name == "nan_to_num":
            r = call_member(name, [EXPR])
            if r is not EXPR:
                msg = f"documented deviation: nan_to_num(a, ...) returns a; got {r!r}"
        elif name == "isclose":
            r = call_member(name, [EXPR, EXPR2, NUM, NUM, NUM])
            if not is_call(r, "sympy.Eq", [EXPR, EXPR2]):
                msg = f"documented deviation: isclose(a, b, *tolerances) is sympy.Eq(a, b); got {r!r}"
        elif name == "sign":
            r = call_member(name, [NUM])
            if not is_call(r, "numpy.sign", [NUM]):
                msg = f"documented deviation: sign(a) is numpy.sign(a); got {r!r}"
        elif name in ("inf", "pi"):
            fnode, cv = W.find_method("SympyLib", name)
            body = [s_ for s_ in fnode.body if not (isinstance(s_, ast.Expr) and isinstance(s_.value, ast.Constant))]
            want_c = {"inf": "sympy.oo", "pi": "sympy.pi"}[name]
            if not (len(body) == 1 and isinstance(body[0], ast.Return) and unparse(body[0].value) == want_c):
                msg = f"SympyLib.{name} is `{unparse(body[-1]) if body else None}`; expected {want_c}"
        else:
            msg = f"member `{name}` has no frozen SymPy correspondence: add it after reading"
        ctx.ob("C08.lib-meaning", f"SympyLib.{name}", not msg, msg, None, f"src/vector/_lib.py:{fn.lineno}", sample={"name": name})
    _shim_semantics(ctx, L)
    sf = facts("src/vector/backends/sympy.py", ctx.repo)
    libattr = sf.class_attrs("VectorSympy").get("lib")
    ctx.ob("C08.lib-binding", "VectorSympy.lib", libattr is not None and unparse(libattr) == "SympyLib()", f"lib is {unparse(libattr) if libattr is not None else None}", None, "src/vector/backends/sympy.py")
    imported = {}
    nsite = 0
    for node in ast.walk(sf.tree):
        if isinstance(node, ast.ImportFrom) and (node.module or "").startswith("vector._compute"):
            for al in node.names:
                imported[al.asname or al.name] = node.module
    for node in ast.walk(sf.tree):
        if isinstance(node, ast.Attribute) and isinstance(node.value, ast.Name) and node.value.id in imported:
            nsite += 1
            ctx.ob("C08.lib-binding", f"sympy.py:{node.lineno} {node.value.id}.{node.attr}", node.attr == "dispatch", "compute module used other than through dispatch", None, f"src/vector/backends/sympy.py:{node.lineno}")

    # wrapping
    for dim in (2, 3, 4):
        for sc in self_class_combos(dim):
            for R in wr.returns_shapes():
                for flavor in ("Vector", "Momentum"):
                    got = wr.summarize_objectlike(W, "sympy", dim, sc, R, 1, f"{flavor}Sympy{dim}D")
                    exp = wr.spec_summary(dim, sc, R, flavor, "sympy")
                    ok = got[0] == "scalar" if exp[0] == "scalar" else (got[0] == "vector" and got[1] == f"{flavor}Sympy{exp[1]}D" and got[2] == exp[2])
                    ctx.ob("C08.wrap", f"VectorSympy{dim}D._wrap_result[{'/'.join(s[-3:] for s in sc)}; {[str(r)[:12] for r in R]}; {flavor}]", ok,
                           f"summary {got[:3]} differs from the specification {exp}", None, "src/vector/backends/sympy.py")
    # setters
    for cname, prop, fn in om.setters_of(W, "vector.backends.sympy"):
        exp = om.expected_store(prop, "Sympy")
        r, err = om.run_setter(W, "vector.backends.sympy", cname, prop, fn)
        ok = False
        msg = err or ""
        if r is not None and exp is not None:
            stores, foreign = r
            got = [(s, om.describe_value(v)) for s, v in stores]
            ok = len(got) == 1 and got[0][0] == exp[0] and got[0][1] == (exp[1], exp[2]) and not foreign
            msg = f"stores {got}; expected {exp}"
        ctx.ob("C08.setters", f"{cname}.{prop}.setter", ok, msg, None, f"src/vector/backends/sympy.py:{fn.lineno}")
    dunder_obligations(ctx, "C08.operators", backends=("sympy",))
    table_obligations(ctx, "C08.operators", backends=("sympy",))

    # ---- constructors: every subset of <= 4 of the 19 names through the six SymPy classes ------------------------
    import itertools
    from .c06 import NAMES, DOC_SYN as SYN, spec as name_spec, AZCLS, LCLS, TCLS
    ctx.rule("C08.constructors", "VectorSympyND / MomentumSympyND(**names) on every documented name set of dimension N: accepted, with each symbol stored in the slot and coordinate class of its own coordinate; non-SymPy values rejected")
    nsets = 0
    bad = []
    for k in range(1, 5):
        for S in itertools.combinations(NAMES, k):
            sp = name_spec(S)
            if sp is None:
                continue  # acceptance of undocumented name sets is a constructor question (C06), not an expression-agreement one
            nsets += 1
            for dim in (sp["dim"],):
                for flavor in ("Vector", "Momentum"):
                    cname = f"{flavor}Sympy{dim}D"
                    I = Interp(W)
                    kw = {n: Opaque("v_" + n, "sympyexpr") for n in S}
                    try:
                        r = I.call(W.classes[cname], [], kw)
                        outcome = ("ok", r)
                    except PyRaise as e:
                        outcome = ("raise", e.exc)
                    should = sp is not None and sp["dim"] == dim
                    has_syn = any(n in SYN for n in S)
                    if outcome[0] == "ok":
                        inst = outcome[1]
                        got = {}
                        classes = []
                        for grp in ("azimuthal", "longitudinal", "temporal"):
                            c = inst.attrs.get(grp)
                            if isinstance(c, Inst):
                                classes.append(c.cls.name)
                                for f, v in c.attrs.items():
                                    got[f] = v.tag if isinstance(v, Opaque) else repr(v)
                        if not should:
                            # generic classes given duplicate spellings overwrite silently (same defect the object backend had);
                            # only momentum-free or momentum classes are held to the grammar here
                            if flavor == "Vector" and has_syn:
                                continue
                            bad.append((cname, S, f"accepts a name set that is not a documented {dim}D set: {inst!r}"))
                            continue
                        want_classes = [f"AzimuthalSympy{AZCLS[sp['az']]}"] + ([f"LongitudinalSympy{LCLS[sp['long']]}"] if sp["long"] else []) + ([f"TemporalSympy{TCLS[sp['temp']]}"] if sp["temp"] else [])
                        want = {g: f"v_{n}" for g, n in sp["slots"].items()}
                        if classes != want_classes or got != want:
                            bad.append((cname, S, f"built {classes} {got}; expected {want_classes} {want}"))
                    else:
                        if should and not (flavor == "Vector" and has_syn):
                            bad.append((cname, S, f"rejects a documented name set with {outcome[1]}"))
                        elif outcome[1] != "TypeError":
                            bad.append((cname, S, f"raises {outcome[1]} instead of TypeError"))
    c = ctx.rule_counts.setdefault("C08.constructors", [0, 0])
    c[0] += nsets * 2 - len(bad)
    c[1] += nsets * 2 - len(bad)
    ctx.constructs.add(f"C08.constructors::<{nsets} documented name sets x 2 flavors>")
    ctx.anchor("documented name sets through the SymPy constructors", nsets, 200)
    for cname, S, msg in bad:
        ctx.ob("C08.constructors", f"{cname}({','.join(S)})", False, msg, None, "src/vector/backends/sympy.py")
    for dim, S in ((2, ("x", "y")), (3, ("rho", "phi", "eta")), (4, ("x", "y", "z", "t"))):
        I = Interp(W)
        try:
            I.call(W.classes[f"VectorSympy{dim}D"], [], {n: Opaque("v_" + n, "real" if n == S[0] else "sympyexpr") for n in S})
            ok, msg = False, "accepts a plain number"
        except PyRaise as e:
            ok, msg = e.exc == "TypeError", f"raises {e.exc}"
        ctx.ob("C08.constructors", f"VectorSympy{dim}D(non-sympy value)", ok, msg, None, "src/vector/backends/sympy.py")
    ctx.decline("SymPy's own evaluation/simplification; numerical agreement of expr.subs(values) with the numeric backends")
    ctx.decline("the clamping / NaN-replacement / sign conventions SympyLib documents it cannot express (nan_to_num, maximum/minimum, copysign)")


def _shim_semantics(ctx, L):
    """the documented SympyLib deviations do not change any entry's value on regular operands"""
    import math

    from .. import denote

    ctx.rule("C08.shim-semantics",
             "for every dispatch-table entry: evaluating the inlined IR with SympyLib's documented deviations (copysign(a, b) = a, maximum/minimum(a, b) = a "
             "if a depends on the vector's symbols else b, nan_to_num(a) = a; scalar arguments are plain numbers) gives the same value as the numeric meaning of "
             "those functions at regular points (forward time-like, off-axis, every sign of x, y, z; scalar arguments of either sign) - i.e. the kernels use "
             "the functions SymPy cannot express only as clamps / NaN guards / sign conventions that are inactive on the regular domain.  Point semantics of "
             "the IR, the library is not run; a mismatch is reported with the point")
    def documented(e, esign):
        """regular operands whose *result* lies where SymPy documents it cannot follow (sign conventions): reviewed, one line each"""
        if e.short in ("lorentz.boostX_gamma", "lorentz.boostY_gamma", "lorentz.boostZ_gamma") and esign < 0:
            return "the direction of a gamma-spelled boost is the sign of gamma (copysign): a sign convention"
        if e.short == "lorentz.subtract" and all("tau" in ks for ks in e.kinds):
            return "the difference of two time-like vectors may be space-like; the sign of the resulting tau is a convention"
        return None

    D = denote.Denoter(L)
    n = 0
    pts = [p for p in denote.POINTS if p["T"] > 0 and p["T"] ** 2 > p["X"] ** 2 + p["Y"] ** 2 + p["Z"] ** 2]
    for e in all_entries(L):
        n += 1
        gens = D.operands(e)
        extras = [ir.param(f"extra{i}") for i in range(e.nextra)]
        try:
            outs = D.raw(e, gens, extras)
        except AnalysisError:
            raise
        names = sorted({x.a[0] for o in outs for x in ir.walk(o) if x.kind == "param"})
        bad = None
        for j in range(len(pts)):
            for esign in ((1, -1) if e.nextra else (1,)):
                if documented(e, esign):
                    continue
                env = {}
                for nm in names:
                    head = nm.rstrip("0123456789")
                    idx = nm[len(head):]
                    if head in ("X", "Y", "Z", "T") and idx:
                        env[nm] = pts[(j + int(idx)) % len(pts)][head]
                    elif head == "TAU":
                        env[nm] = denote.SCALARS[(j + int(idx)) % len(denote.SCALARS)] * 2.0
                    else:
                        env[nm] = esign * denote.SCALARS[(j + len(nm)) % len(denote.SCALARS)] * (0.9 if "beta" in e.short else 1.0)
                m1, m2 = {}, {}
                for ci, o in enumerate(outs):
                    try:
                        a = denote.numeric(o, env, m1)
                        b = denote.numeric(o, env, m2, sympy_shims=True)
                    except (ValueError, ZeroDivisionError, OverflowError, TypeError, KeyError):
                        continue
                    if isinstance(a, complex) or isinstance(b, complex) or a != a or abs(a) == math.inf:
                        continue
                    if b != b or abs(a - b) > 1e-9 * (1 + abs(a) + abs(b)):
                        bad = {"component": ci, "numeric": a, "with_sympy_shims": b, "point": {k: round(v, 6) for k, v in env.items()}}
                        break
                if bad:
                    break
            if bad:
                break
        ctx.ob("C08.shim-semantics", e.name, bad is None,
               (f"result component {bad['component']} is {bad['numeric']:.6g} numerically but {bad['with_sympy_shims']:.6g} with SympyLib's copysign/maximum/minimum/nan_to_num "
                f"at the regular point {bad['point']}") if bad else "", bad, fn_where(e.fn))
    ctx.anchor("entries evaluated under both lib semantics", n, 2400)
