"""C09 — boosts are Lorentz transformations with the documented relations (ring-normal-form proofs)."""
from __future__ import annotations

from .. import ir, nf
from ..algebra import Kernels, P, add, c, div, equal_vec, lib, mul, neg, sub
from ..core import AnalysisError
from ..loader import link
from ..methods import class_methods

LEVEL = "proof"
EXPLANATION = (
    "The Cartesian boost kernels (boostX/Y/Z_beta, boostX/Y/Z_gamma, boost_beta3, boost_p4 for t- and "
    "tau-stored boosters, with t- and tau-stored boosted vectors) are inlined with symbolic operands and "
    "identities are decided by equality of ring normal forms (sqrt(e)^2 = e, copysign(a,s)^2 = a^2, "
    "|e|^2 = e^2, sqrt(e^2) = |e|): Minkowski product preserved, inverse by the opposite boost, "
    "boostA(beta) == boost_beta3 along axis A, boostA(gamma) == boostA(beta(gamma)) with the sign of gamma "
    "giving the direction, axis composition has the velocity-addition ratio, tau-stored vectors keep the "
    "tau parameter and use the t-kernel's spatial rows, boost_p4(p) == boost_beta3(p/E) (E > 0 declared), "
    "v.boostCM_of_p4(v) == (0,0,0,sqrt(t^2-|p|^2)); the method layer dispatches boost()/boostCM_of() on the "
    "booster's dimension and passes <booster>.neg3D.  Other signatures are transported by C01.  Not decided: "
    "float cancellation (exactly-zero spatial part in float64), ultra-relativistic rounding."
)

C4 = "xy_z_t"
C4TAU = "xy_z_tau"


def mdot(a, b):
    s = mul(a[3], b[3])
    for i in range(3):
        s = sub(s, mul(a[i], b[i]))
    return s


def run(ctx):
    L = link(ctx.repo)
    K = Kernels(L)
    ctx.trusted_base = [
        "python ast/inspect link step", "verifstat.ir inliner",
        "verifstat.nf ring normal form (rules sqrt(e)^2->e, copysign^2, abs^2, sqrt(e^2)->|e|; sqrt_pos where named)",
    ]
    ctx.rule("C09.minkowski-preserved", "eta(B a, B b) == eta(a, b), eta = t1 t2 - x1 x2 - y1 y2 - z1 z2")
    ctx.rule("C09.inverse", "B(-v) B(v) a == a (beta -> -beta, gamma -> -gamma, beta3 -> -beta3, p4 -> (-p, E))")
    ctx.rule("C09.axis-equals-beta3", "boostX/Y/Z(beta) == boost_beta3 with beta along that axis")
    ctx.rule("C09.gamma-equals-beta", "boostA(gamma) == boostA(beta = copysign(sqrt(gamma^2-1), gamma)/|gamma|)")
    ctx.rule("C09.velocity-addition", "M = B_A(b1) B_A(b2): M_At (1 + b1 b2) == M_tt (b1 + b2), M_tA == M_At, M_AA == M_tt")
    ctx.rule("C09.tau-stored", "tau-stored variant returns the tau parameter unchanged and the spatial rows of the t-variant evaluated at t = t(x,y,z,tau)")
    ctx.rule("C09.p4-equals-beta3", "boost_p4(p) == boost_beta3(p / E) for E > 0 (rule sqrt_pos on E)")
    ctx.rule("C09.cm-frame", "boost_p4(v, (-p, E) of v) == (0, 0, 0, sqrt(t^2 - |p|^2))")
    ctx.rule("C09.method-forwarding", "Lorentz.boost* forward/dispatch as documented (dimension guards, Vector3D/Vector4D branches, neg3D for CM)")

    a = P("ax", "ay", "az", "at")
    b = P("bx", "by", "bz", "bt")
    beta, gamma = ir.param("beta"), ir.param("gamma")
    b1, b2 = ir.param("beta1"), ir.param("beta2")
    bv = P("vx", "vy", "vz")
    p4 = P("px", "py", "pz", "pE")
    p4m = P("px", "py", "pz", "pm")

    def check(rule, name, ring, lhs, rhs, w=None, sample=None):
        ok, idx, res = equal_vec(ring, lhs, rhs)
        ctx.ob(rule, name, ok, f"identity fails in component {idx}",
               {"component": idx, "residual": res} if not ok else None, w, sample=sample)

    axes = "XYZ"
    for i, A in enumerate(axes):
        for kind, par in (("beta", beta), ("gamma", gamma)):
            mod = f"lorentz.boost{A}_{kind}"
            B = lambda t, v, mod=mod: K(mod, C4, t, *v)  # noqa: E731
            w = K.where(mod, C4)
            ring = nf.Ring()
            check("C09.minkowski-preserved", f"boost{A}_{kind}", ring, [mdot(B(par, a), B(par, b))], [mdot(a, b)], w,
                  sample=f"eta(boost{A}({kind}) a, boost{A}({kind}) b) - eta(a, b) normalises to 0")
            check("C09.inverse", f"boost{A}_{kind}", ring, B(neg(par), B(par, a)), a, w)
            # tau-stored
            tau = ir.param("atau")
            tt = K("lorentz.t", C4TAU, a[0], a[1], a[2], tau)[0]
            got = K(mod, C4TAU, par, a[0], a[1], a[2], tau)
            exp = B(par, [a[0], a[1], a[2], tt])
            ok, idx, res = equal_vec(ring, got[:3], exp[:3])
            ok = ok and got[3] is tau
            ctx.ob("C09.tau-stored", f"boost{A}_{kind}", ok,
                   "tau-stored variant differs from the t-variant's spatial rows or does not return tau itself",
                   {"component": idx, "residual": res, "tau_slot": ir.show(got[3])[:80]} if not ok else None, K.where(mod, C4TAU))
        # beta spelling equals boost_beta3 along the axis
        ring = nf.Ring()
        vec = [c(0), c(0), c(0)]
        vec[i] = beta
        check("C09.axis-equals-beta3", f"boost{A}_beta", ring, K(f"lorentz.boost{A}_beta", C4, beta, *a),
              K("lorentz.boost_beta3", "xy_z_t_xy_z", *a, *vec), K.where(f"lorentz.boost{A}_beta", C4))
        # gamma spelling equals beta spelling
        ring = nf.Ring()
        ag = lib("absolute", gamma)
        bofg = div(lib("copysign", lib("sqrt", sub(mul(ag, ag), c(1))), gamma), ag)
        check("C09.gamma-equals-beta", f"boost{A}_gamma", ring, K(f"lorentz.boost{A}_gamma", C4, gamma, *a),
              K(f"lorentz.boost{A}_beta", C4, bofg, *a), K.where(f"lorentz.boost{A}_gamma", C4))
        # velocity addition on matrix entries
        ring = nf.Ring()
        Bb = lambda t, v, A=A: K(f"lorentz.boost{A}_beta", C4, t, *v)  # noqa: E731
        e_t = [c(0), c(0), c(0), c(1)]
        e_a = [c(0), c(0), c(0), c(0)]
        e_a[i] = c(1)
        col_t = Bb(b1, Bb(b2, e_t))
        col_a = Bb(b1, Bb(b2, e_a))
        lhs = [mul(col_t[i], add(c(1), mul(b1, b2))), col_a[3], col_a[i]]
        rhs = [mul(col_t[3], add(b1, b2)), col_t[i], col_t[3]]
        check("C09.velocity-addition", f"boost{A}_beta", ring, lhs, rhs, K.where(f"lorentz.boost{A}_beta", C4))

    # ---- boost_beta3 -----------------------------------------------------------------
    ring = nf.Ring()
    B3 = lambda v, u: K("lorentz.boost_beta3", "xy_z_t_xy_z", *v, *u)  # noqa: E731
    w3 = K.where("lorentz.boost_beta3", "xy_z_t_xy_z")
    check("C09.minkowski-preserved", "boost_beta3", ring, [mdot(B3(a, bv), B3(b, bv))], [mdot(a, b)], w3)
    check("C09.inverse", "boost_beta3", ring, B3(B3(a, bv), [neg(x) for x in bv]), a, w3)
    tau = ir.param("atau")
    tt = K("lorentz.t", C4TAU, a[0], a[1], a[2], tau)[0]
    got = K("lorentz.boost_beta3", "xy_z_tau_xy_z", a[0], a[1], a[2], tau, *bv)
    exp = B3([a[0], a[1], a[2], tt], bv)
    ok, idx, res = equal_vec(ring, got[:3], exp[:3])
    ctx.ob("C09.tau-stored", "boost_beta3", ok and got[3] is tau, "tau-stored variant differs",
           {"component": idx, "residual": res} if not ok else None, K.where("lorentz.boost_beta3", "xy_z_tau_xy_z"))

    # ---- boost_p4 ----------------------------------------------------------------------
    for signame, pp, label in (("xy_z_t_xy_z_t", p4, "t-stored booster"), ("xy_z_t_xy_z_tau", p4m, "tau-stored booster")):
        ring = nf.Ring()
        BP = lambda v, q, s=signame: K("lorentz.boost_p4", s, *v, *q)  # noqa: E731
        wp = K.where("lorentz.boost_p4", signame)
        check("C09.minkowski-preserved", f"boost_p4[{label}]", ring, [mdot(BP(a, pp), BP(b, pp))], [mdot(a, b)], wp)
        inv = [neg(pp[0]), neg(pp[1]), neg(pp[2]), pp[3]]
        check("C09.inverse", f"boost_p4[{label}]", ring, BP(BP(a, pp), inv), a, wp)
    ring = nf.Ring()
    got = K("lorentz.boost_p4", "xy_z_tau_xy_z_t", a[0], a[1], a[2], tau, *p4)
    exp = K("lorentz.boost_p4", "xy_z_t_xy_z_t", a[0], a[1], a[2], tt, *p4)
    ok, idx, res = equal_vec(ring, got[:3], exp[:3])
    ctx.ob("C09.tau-stored", "boost_p4", ok and got[3] is tau, "tau-stored variant differs",
           {"component": idx, "residual": res} if not ok else None, K.where("lorentz.boost_p4", "xy_z_tau_xy_z_t"))
    # boost_p4(p) == boost_beta3(p.to_beta3())
    ring = nf.Ring(rules=["sqrt_pos"])
    ring.positive.add(ring.atom(("param", "pE")))
    b3 = K("lorentz.to_beta3", "xy_z_t", *p4)
    check("C09.p4-equals-beta3", "boost_p4", ring, K("lorentz.boost_p4", "xy_z_t_xy_z_t", *a, *p4), B3(a, b3),
          K.where("lorentz.boost_p4", "xy_z_t_xy_z_t"), sample="boost_p4(a, p) vs boost_beta3(a, to_beta3(p)), E > 0")
    # CM frame
    ring = nf.Ring()
    selfneg = [neg(a[0]), neg(a[1]), neg(a[2]), a[3]]
    m = lib("sqrt", sub(mul(a[3], a[3]), add(add(mul(a[0], a[0]), mul(a[1], a[1])), mul(a[2], a[2]))))
    check("C09.cm-frame", "boost_p4", ring, K("lorentz.boost_p4", "xy_z_t_xy_z_t", *a, *selfneg), [c(0), c(0), c(0), m],
          K.where("lorentz.boost_p4", "xy_z_t_xy_z_t"))
    ring = nf.Ring()
    b3self = K("lorentz.to_beta3", "xy_z_t", *a)
    got = B3(a, [neg(x) for x in b3self])
    ringp = nf.Ring(rules=["sqrt_pos"])
    ringp.positive.add(ringp.atom(("param", "at")))
    check("C09.cm-frame", "boost_beta3", ringp, got, [c(0), c(0), c(0), m], w3)

    # ---- method layer --------------------------------------------------------------------
    ms = class_methods("Lorentz")

    def need(name):
        m_ = ms.get(name)
        if m_ is None:
            raise AnalysisError(f"anchor Lorentz.{name} missing")
        return m_

    def site_ok(s, g, mod, args, path=None):
        return s.group == g and s.module == mod and s.args == args and (path is None or s.path == path)

    simple = {
        "boost_p4": ("boost_p4", ["self", "p4"], "dim(p4) != 4"),
        "boost_beta3": ("boost_beta3", ["self", "beta3"], "dim(beta3) != 3"),
        "boostCM_of_p4": ("boost_p4", ["self", "p4.neg3D"], "dim(p4) != 4"),
        "boostCM_of_beta3": ("boost_beta3", ["self", "beta3.neg3D"], "dim(beta3) != 3"),
    }
    for name, (mod, args, guard) in simple.items():
        m_ = need(name)
        ok = len(m_.sites) == 1 and site_ok(m_.sites[0], "lorentz", mod, args, []) and not m_.returns \
            and any(guard in g and "TypeError" in g for g in m_.sites[0].guards)
        ctx.ob("C09.method-forwarding", f"Lorentz.{name}", ok,
               f"expected guard `if {guard}: raise TypeError` then `lorentz.{mod}.dispatch({', '.join(args)})`",
               [s.as_dict() for s in m_.sites], f"src/vector/_methods.py:{m_.fn.lineno}", sample=[s.as_dict() for s in m_.sites])
    for name, suffix in (("boost", ""), ("boostCM_of", ".neg3D")):
        m_ = need(name)
        ok = len(m_.sites) == 2 and not m_.returns \
            and site_ok(m_.sites[0], "lorentz", "boost_beta3", ["self", "booster" + suffix], ["isinstance(booster, Vector3D)"]) \
            and site_ok(m_.sites[1], "lorentz", "boost_p4", ["self", "booster" + suffix],
                        ["not (isinstance(booster, Vector3D))", "isinstance(booster, Vector4D)"]) \
            and any(exc == "TypeError" for _, exc in m_.raises)
        ctx.ob("C09.method-forwarding", f"Lorentz.{name}", ok,
               "expected Vector3D -> boost_beta3, Vector4D -> boost_p4, else TypeError",
               [s.as_dict() for s in m_.sites], f"src/vector/_methods.py:{m_.fn.lineno}")
    for A in axes:
        m_ = need(f"boost{A}")
        ok = len(m_.sites) == 2 and not m_.returns and m_.params == ["self", "beta", "gamma"] \
            and site_ok(m_.sites[0], "lorentz", f"boost{A}_beta", ["beta", "self"], ["beta is not None and gamma is None"]) \
            and site_ok(m_.sites[1], "lorentz", f"boost{A}_gamma", ["gamma", "self"],
                        ["not (beta is not None and gamma is None)", "beta is None and gamma is not None"]) \
            and any(exc == "TypeError" for _, exc in m_.raises)
        ctx.ob("C09.method-forwarding", f"Lorentz.boost{A}", ok,
               f"expected beta-only -> boost{A}_beta.dispatch(beta, self), gamma-only -> boost{A}_gamma.dispatch(gamma, self), else TypeError",
               [s.as_dict() for s in m_.sites], f"src/vector/_methods.py:{m_.fn.lineno}")
    m_ = need("to_beta3")
    ctx.ob("C09.method-forwarding", "Lorentz.to_beta3",
           len(m_.sites) == 1 and site_ok(m_.sites[0], "lorentz", "to_beta3", ["self"], []), "expected lorentz.to_beta3.dispatch(self)")
    from .. import singular as _sg
    import re as _re

    ctx.rule("C09.special-arguments",
             "every variant of the boosts, evaluated (IEEE point semantics of the inlined IR) on generic operands with special values of the scalar arguments - 0, +-1, +-pi, pi/2, "
             "+-0.5, and for several arguments each in turn - gives the values frozen from the pinned tree in tables/special_args.json: an algebraically equivalent rewrite "
             "with a pole at a half turn / at rest / at zero (s**2/(1+c) for 1-c, (gamma-1)/beta**2 for gamma**2/(1+gamma)) changes them to NaN exactly there")
    _n_sp = _sg.special_obligations(ctx, L, "C09.special-arguments", lambda short: bool(_re.search(r"boost", short)))
    ctx.anchor("boosts variants with frozen special-argument values", _n_sp, 10)
    ctx.decline("v.boostCM_of_p4(v) having an exactly-zero spatial part in float64 (cancellation/rounding); the exact identity is proved")
    ctx.decline("ultra-relativistic rounding; non-Cartesian signatures are transported by C01")
