"""C10 — rotations are proper rotations and their spellings agree (ring-normal-form proofs)."""
from __future__ import annotations

import itertools

from .. import ir, nf
from ..algebra import Kernels, P, add, c, equal_vec, mul, neg, sub
from ..core import AnalysisError
from ..loader import link
from ..methods import class_methods

LEVEL = "proof"
EXPLANATION = (
    "Each Cartesian rotation kernel (planar.rotateZ, spatial.rotateX/rotateY, rotate_axis, "
    "rotate_quaternion, the 12 rotate_euler matrices) is inlined into an expression DAG with symbolic "
    "operands; identities are decided by equality of ring normal forms over Q[params, cos, sin, sqrt] "
    "modulo sin^2 = 1 - cos^2, sqrt(e)^2 = e (no solver, no sampling): dot products preserved, "
    "R(a) x R(b) = R(a x b) (handedness, det = +1), inverse by the opposite angle, additivity about a "
    "fixed axis (angle-addition expansion), rotate_axis about e_x/e_y/e_z equals rotateX/Y/Z and ignores "
    "a positive axis scale, rotate_quaternion(cos h, n sin h) = rotate_axis(n, 2h), each Euler matrix "
    "equals the composition R_{o[0]}(-psi) R_{o[1]}(-theta) R_{o[2]}(-phi) of the repository's own axis "
    "kernels (the one convention all 12 satisfy on the pinned tree), and the method layer forwards "
    "rotate_nautical(yaw,pitch,roll) as rotate_euler(roll,pitch,yaw,'zyx'), lower-cases the order, and "
    "all 12 lower-case orders are table keys.  Non-Cartesian signatures are transported by C01; time "
    "pass-through by C03.  Not decided: float behaviour at large angles."
)

ORDERS = ["xzx", "xyx", "yxy", "yzy", "zyz", "zxz", "xzy", "xyz", "yxz", "yzx", "zyx", "zxy"]


def dot3(a, b):
    return add(add(mul(a[0], b[0]), mul(a[1], b[1])), mul(a[2], b[2]))


def cross3(a, b):
    return [
        sub(mul(a[1], b[2]), mul(a[2], b[1])),
        sub(mul(a[2], b[0]), mul(a[0], b[2])),
        sub(mul(a[0], b[1]), mul(a[1], b[0])),
    ]


def run(ctx):
    L = link(ctx.repo)
    K = Kernels(L)
    ctx.trusted_base = [
        "python ast/inspect link step",
        "verifstat.ir inliner",
        "verifstat.nf ring normal form with rules sin^2->1-cos^2, sqrt(e)^2->e, parity of sin/cos; "
        "optional rules named per obligation: angle_addition (cos/sin of a sum), sqrt_pos (sqrt(k^2 e) = k sqrt(e), k>0)",
    ]
    ctx.rule("C10.dot-preserved", "dot(R a, R b) == dot(a, b) (for rotate_quaternion: == |q|^4 dot(a,b), i.e. orthogonal for unit quaternions)")
    ctx.rule("C10.handedness", "R a x R b == R (a x b)  (det = +1; for rotate_quaternion scaled by |q|^2)")
    ctx.rule("C10.inverse", "R(-angle) R(angle) v == v")
    ctx.rule("C10.additive", "R(alpha) R(beta) v == R(alpha + beta) v about a fixed axis (rule angle_addition)")
    ctx.rule("C10.axis-equals-rotateXYZ", "rotate_axis about the unit coordinate axes equals rotateX / rotateY / rotateZ")
    ctx.rule("C10.axis-scale-invariant", "rotate_axis(k n, a) == rotate_axis(n, a) for k > 0 (rule sqrt_pos)")
    ctx.rule("C10.quaternion-equals-axis", "rotate_quaternion(cos h, n sin h) == rotate_axis(n, 2h) for |n| = 1 written as n/|n| (rule angle_addition)")
    ctx.rule("C10.euler-composition", "rotate_euler[order](phi,theta,psi) == R_{o0}(-psi) R_{o1}(-theta) R_{o2}(-phi) built from the repository's rotateX/rotateY/rotateZ kernels")
    ctx.rule("C10.euler-table", "the 12 lower-case orders are exactly the order keys of the rotate_euler table, for every coordinate signature")
    ctx.rule("C10.method-forwarding", "Spatial.rotate_* forward to the right module with the documented argument order")

    a = P("ax", "ay", "az")
    b = P("bx", "by", "bz")
    ang = ir.param("angle")
    al, be = ir.param("alpha"), ir.param("beta")

    def RX(t, v):
        return K("spatial.rotateX", "xy_z", t, *v)

    def RY(t, v):
        return K("spatial.rotateY", "xy_z", t, *v)

    def RZ(t, v):
        o = K("planar.rotateZ", "xy", t, v[0], v[1])
        return [o[0], o[1], v[2]]

    ROT = {"x": RX, "y": RY, "z": RZ}
    where = {
        "rotateX": K.where("spatial.rotateX", "xy_z"),
        "rotateY": K.where("spatial.rotateY", "xy_z"),
        "rotateZ": K.where("planar.rotateZ", "xy"),
        "rotate_axis": K.where("spatial.rotate_axis", "xy_z_xy_z"),
        "rotate_quaternion": K.where("spatial.rotate_quaternion", "xy_z"),
    }

    def check(rule, name, ring, lhs, rhs, w=None, sample=None):
        ok, idx, res = equal_vec(ring, lhs, rhs)
        ctx.ob(rule, name, ok, f"identity fails in component {idx}", {"component": idx, "residual": res} if not ok else None,
               w, sample=sample)

    # ---- axis rotations -------------------------------------------------------------
    for nm_, R in (("rotateX", RX), ("rotateY", RY), ("rotateZ", RZ)):
        ring = nf.Ring()
        check("C10.dot-preserved", nm_, ring, [dot3(R(ang, a), R(ang, b))], [dot3(a, b)], where[nm_],
              sample=f"dot({nm_}(angle,a), {nm_}(angle,b)) - dot(a,b) normalises to 0")
        check("C10.handedness", nm_, ring, cross3(R(ang, a), R(ang, b)), R(ang, cross3(a, b)), where[nm_])
        check("C10.inverse", nm_, ring, R(neg(ang), R(ang, a)), a, where[nm_])
        ring2 = nf.Ring(rules=["angle_addition"])
        check("C10.additive", nm_, ring2, R(al, R(be, a)), R(add(al, be), a), where[nm_])
    # planar rotateZ on 2D
    ring = nf.Ring()
    a2, b2 = a[:2], b[:2]
    rz = lambda t, v: K("planar.rotateZ", "xy", t, *v)  # noqa: E731
    check("C10.dot-preserved", "rotateZ(2D)", ring,
          [add(mul(rz(ang, a2)[0], rz(ang, b2)[0]), mul(rz(ang, a2)[1], rz(ang, b2)[1]))],
          [add(mul(a2[0], b2[0]), mul(a2[1], b2[1]))], where["rotateZ"])
    check("C10.handedness", "rotateZ(2D)", ring,
          [sub(mul(rz(ang, a2)[0], rz(ang, b2)[1]), mul(rz(ang, a2)[1], rz(ang, b2)[0]))],
          [sub(mul(a2[0], b2[1]), mul(a2[1], b2[0]))], where["rotateZ"])

    # ---- rotate_axis -----------------------------------------------------------------
    n = P("nx", "ny", "nz")

    def RA(t, ax, v):
        return K("spatial.rotate_axis", "xy_z_xy_z", t, *ax, *v)

    ring = nf.Ring()
    check("C10.dot-preserved", "rotate_axis", ring, [dot3(RA(ang, n, a), RA(ang, n, b))], [dot3(a, b)], where["rotate_axis"])
    check("C10.handedness", "rotate_axis", ring, cross3(RA(ang, n, a), RA(ang, n, b)), RA(ang, n, cross3(a, b)), where["rotate_axis"])
    check("C10.inverse", "rotate_axis", ring, RA(neg(ang), n, RA(ang, n, a)), a, where["rotate_axis"])
    ring2 = nf.Ring(rules=["angle_addition"])
    check("C10.additive", "rotate_axis", ring2, RA(al, n, RA(be, n, a)), RA(add(al, be), n, a), where["rotate_axis"])
    for axname, unit, R in (("x", [c(1), c(0), c(0)], RX), ("y", [c(0), c(1), c(0)], RY), ("z", [c(0), c(0), c(1)], RZ)):
        check("C10.axis-equals-rotateXYZ", f"rotate_axis(e_{axname})", nf.Ring(), RA(ang, unit, a), R(ang, a), where["rotate_axis"])
    ring3 = nf.Ring(rules=["sqrt_pos"])
    k = ir.param("k")
    ring3.positive.add(ring3.atom(("param", "k")))
    check("C10.axis-scale-invariant", "rotate_axis", ring3, RA(ang, [mul(k, x) for x in n], a), RA(ang, n, a), where["rotate_axis"])
    # axis fixed by its own rotation
    check("C10.axis-equals-rotateXYZ", "rotate_axis(n) fixes n", nf.Ring(), RA(ang, n, n), n, where["rotate_axis"])

    # ---- quaternion ---------------------------------------------------------------------
    q = P("qu", "qi", "qj", "qk")

    def RQ(qq, v):
        return K("spatial.rotate_quaternion", "xy_z", *qq, *v)

    ring = nf.Ring()
    q2 = add(add(mul(q[0], q[0]), mul(q[1], q[1])), add(mul(q[2], q[2]), mul(q[3], q[3])))
    check("C10.dot-preserved", "rotate_quaternion", ring, [dot3(RQ(q, a), RQ(q, b))], [mul(mul(q2, q2), dot3(a, b))], where["rotate_quaternion"])
    check("C10.handedness", "rotate_quaternion", ring, cross3(RQ(q, a), RQ(q, b)), [mul(q2, x) for x in RQ(q, cross3(a, b))], where["rotate_quaternion"])
    qinv = [q[0], neg(q[1]), neg(q[2]), neg(q[3])]
    check("C10.inverse", "rotate_quaternion", ring, RQ(qinv, RQ(q, a)), [mul(mul(q2, q2), x) for x in a], where["rotate_quaternion"])
    # quaternion (cos h, n/|n| sin h) == rotate_axis(n, 2h)
    ring4 = nf.Ring(rules=["angle_addition"])
    h = ir.param("h")
    norm = ir.mk("lib", "sqrt", (add(add(mul(n[0], n[0]), mul(n[1], n[1])), mul(n[2], n[2])),), ())
    ch = ir.mk("lib", "cos", (h,), ())
    sh = ir.mk("lib", "sin", (h,), ())
    qq = [ch] + [mul(ir.mk("op", "/", x, norm), sh) for x in n]
    check("C10.quaternion-equals-axis", "rotate_quaternion", ring4, RQ(qq, a), RA(mul(c(2), h), n, a), where["rotate_quaternion"])

    # ---- Euler ---------------------------------------------------------------------------
    phi, theta, psi = P("phi", "theta", "psi")
    ents = {e.signame: e for e in K._by_name.get("vector._compute.spatial.rotate_euler", {}).values()} or None
    K.entry("spatial.rotate_euler", "xy_z_zxz")
    tab = K._by_name["vector._compute.spatial.rotate_euler"]
    found_orders: dict = {}
    for e in tab.values():
        if len(e.extra_sig) != 1 or not isinstance(e.extra_sig[0], str):
            raise AnalysisError(f"{e.name}: expected (azimuthal, longitudinal, order) key")
        found_orders.setdefault(tuple(e.ops[0]), set()).add(e.extra_sig[0])
    ctx.anchor("rotate_euler coordinate signatures", len(found_orders), 6)
    for op, orders in found_orders.items():
        nm_ = "_".join(L.CLS_SHORT[cc] for cc in op)
        ctx.ob("C10.euler-table", f"rotate_euler[{nm_}]", orders == set(ORDERS),
               "order keys differ from the 12 documented lower-case orders",
               {"missing": sorted(set(ORDERS) - orders), "unexpected": sorted(orders - set(ORDERS))})
    for order in ORDERS:
        ring = nf.Ring()
        got = K("spatial.rotate_euler", f"xy_z_{order}", phi, theta, psi, *a)
        w = a
        for ax, t in zip(reversed(order), (phi, theta, psi)):
            w = ROT[ax](neg(t), w)
        # w = R_{o0}(-psi) R_{o1}(-theta) R_{o2}(-phi) a : first applied is o[2] with -phi
        wh = K.where("spatial.rotate_euler", f"xy_z_{order}")
        ok, idx, res = equal_vec(ring, got, w)
        ctx.ob("C10.euler-composition", f"rotate_euler[{order}]", ok,
               f"matrix row {idx} (output {'xyz'[idx] if idx is not None and idx >= 0 else '?'}) differs from the axis-rotation composition",
               {"row": idx, "residual": res} if not ok else None, wh,
               sample=f"{order}: R_{order[0]}(-psi) R_{order[1]}(-theta) R_{order[2]}(-phi)")
        check("C10.dot-preserved", f"rotate_euler[{order}]", ring,
              [dot3(got, K("spatial.rotate_euler", f"xy_z_{order}", phi, theta, psi, *b))], [dot3(a, b)], wh)
        check("C10.handedness", f"rotate_euler[{order}]", ring,
              cross3(got, K("spatial.rotate_euler", f"xy_z_{order}", phi, theta, psi, *b)),
              K("spatial.rotate_euler", f"xy_z_{order}", phi, theta, psi, *cross3(a, b)), wh)

    # ---- method layer ---------------------------------------------------------------------
    ms = class_methods("Spatial")
    pm = class_methods("Planar")
    spec = {
        ("Planar", "rotateZ"): ("planar", "rotateZ", ["angle", "self"], ["self", "angle"]),
        ("Spatial", "rotateX"): ("spatial", "rotateX", ["angle", "self"], ["self", "angle"]),
        ("Spatial", "rotateY"): ("spatial", "rotateY", ["angle", "self"], ["self", "angle"]),
        ("Spatial", "rotate_axis"): ("spatial", "rotate_axis", ["angle", "axis", "self"], ["self", "axis", "angle"]),
        ("Spatial", "rotate_euler"): ("spatial", "rotate_euler", ["phi", "theta", "psi", "order.lower()", "self"], ["self", "phi", "theta", "psi", "order"]),
        ("Spatial", "rotate_nautical"): ("spatial", "rotate_euler", ["roll", "pitch", "yaw", "'zyx'", "self"], ["self", "yaw", "pitch", "roll"]),
        ("Spatial", "rotate_quaternion"): ("spatial", "rotate_quaternion", ["u", "i", "j", "k", "self"], ["self", "u", "i", "j", "k"]),
    }
    for (cls, name), (g, mod, args, params) in spec.items():
        m = (pm if cls == "Planar" else ms).get(name)
        if m is None:
            raise AnalysisError(f"anchor {cls}.{name} missing")
        ok = len(m.sites) == 1 and m.sites[0].group == g and m.sites[0].module == mod and m.sites[0].args == args \
            and m.params == params and not m.sites[0].path and not m.returns
        if name == "rotate_axis":
            ok = ok and any("dim(axis) != 3" in gd and "TypeError" in gd for gd in m.sites[0].guards)
        if name == "rotate_euler":
            ok = ok and m.defaults.get("order") == "'zxz'"
        ctx.ob("C10.method-forwarding", f"{cls}.{name}", ok,
               f"expected `{g}.{mod}.dispatch({', '.join(args)})` with parameters {params}",
               {"sites": [s.as_dict() for s in m.sites], "params": m.params}, f"src/vector/_methods.py:{m.fn.lineno}",
               sample=[s.as_dict() for s in m.sites])
    # dispatch() of rotate_euler passes (phi, theta, psi) before coordinates: decided for all dispatchers under C01.3
    ctx.analysed["kernels"] = sorted(where)
    ctx.analysed["euler_orders"] = ORDERS
    from .. import singular as _sg
    import re as _re

    ctx.rule("C10.special-arguments",
             "every variant of the rotations, evaluated (IEEE point semantics of the inlined IR) on generic operands with special values of the scalar arguments - 0, +-1, +-pi, pi/2, "
             "+-0.5, and for several arguments each in turn - gives the values frozen from the pinned tree in tables/special_args.json: an algebraically equivalent rewrite "
             "with a pole at a half turn / at rest / at zero (s**2/(1+c) for 1-c, (gamma-1)/beta**2 for gamma**2/(1+gamma)) changes them to NaN exactly there")
    _n_sp = _sg.special_obligations(ctx, L, "C10.special-arguments", lambda short: bool(_re.search(r"rotate", short)))
    ctx.anchor("rotations variants with frozen special-argument values", _n_sp, 10)
    ctx.decline("float behaviour for large angles / multiples of pi (rounding)")
    ctx.decline("non-Cartesian signatures: transported to these kernels by C01's template check")
    ctx.decline("time / proper time untouched: decided by the _wrap_result pass-through summaries (C03)")
