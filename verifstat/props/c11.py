"""C11 — vector-space, dot, cross and unit-vector laws (ring-normal-form proofs on the Cartesian bases)."""
from __future__ import annotations

from .. import ir, nf
from ..algebra import Kernels, P, add, c, equal_vec, lib, mul, neg, sub
from ..core import AnalysisError
from ..loader import link
from ..methods import class_methods

LEVEL = "proof"
EXPLANATION = (
    "The Cartesian kernels of add, subtract, scale, dot, cross, unit and the squared norms "
    "(rho2/mag2/tau2) in 2D, 3D and 4D are inlined with symbolic operands; each law is decided by "
    "equality of ring normal forms: commutativity/associativity of add, subtract(a,b) = add(a, scale(-1,b)), "
    "scale distributes over add and composes multiplicatively, dot symmetric and bilinear with "
    "dot(v,v) = rho2|mag2|tau2 and the Euclidean/Minkowski definition, cross antisymmetric, bilinear, "
    "orthogonal to both factors, Lagrange identity, unit(v) has squared norm 1 (sign(tau2) in 4D), is "
    "collinear with v and has non-negative projection on it (rule nan_to_num_id: finite operands).  Polar "
    "bases: dot.rhophi_rhophi, the radial outputs of add/subtract.rhophi_rhophi and of scale.rhophi agree "
    "with the Cartesian kernels (rule angle_addition).  Method layer: neg2D/3D/4D = scale.dispatch(-1, self); "
    "abs/square/sqrt/cbrt/power ufunc overloads use rho|mag|tau by dimension (object, NumPy, SymPy "
    "__array_ufunc__ and the Awkward behavior table).  Specialised variants (C11.specialised-variants): every frozen "
    "non-Cartesian base of add/subtract/scale/dot/cross/unit is denoted in Cartesian generators and proved equal to "
    "the Cartesian kernel by normal form (including the azimuth of polar add/subtract and the sign/turn handling of "
    "scale, per sign of the factor); a variant is reported only with a concrete differing point.  Not decided: float rounding."
)

DIMS = {
    2: dict(g="planar", s1="xy", s2="xy_xy", names="xy", norm2="rho2", metric=[1, 1]),
    3: dict(g="spatial", s1="xy_z", s2="xy_z_xy_z", names="xyz", norm2="mag2", metric=[1, 1, 1]),
    4: dict(g="lorentz", s1="xy_z_t", s2="xy_z_t_xy_z_t", names="xyzt", norm2="tau2", metric=[-1, -1, -1, 1]),
}


def run(ctx):
    L = link(ctx.repo)
    K = Kernels(L)
    ctx.trusted_base = [
        "python ast/inspect link step", "verifstat.ir inliner",
        "verifstat.nf ring normal form; optional rules named per obligation: nan_to_num_id (finite operands), angle_addition",
    ]
    for r, d in {
        "C11.add-commutative": "add(a,b) == add(b,a)",
        "C11.add-associative": "add(add(a,b),c) == add(a,add(b,c))",
        "C11.subtract-inverse": "subtract(a,b) == add(a, scale(-1,b)) and add(subtract(a,b), b) == a",
        "C11.scale-distributes": "scale(k, add(a,b)) == add(scale(k,a), scale(k,b)); scale(k+m, a) == add(scale(k,a), scale(m,a))",
        "C11.scale-composes": "scale(k, scale(m,a)) == scale(k*m, a); scale(1,a) == a",
        "C11.dot-symmetric": "dot(a,b) == dot(b,a)",
        "C11.dot-bilinear": "dot(add(a,b),c) == dot(a,c)+dot(b,c); dot(scale(k,a),b) == k dot(a,b)",
        "C11.dot-metric": "dot == sum_i g_i a_i b_i with g = (+,+[,+]) Euclidean or (-,-,-,+) Minkowski; dot(v,v) == rho2|mag2|tau2",
        "C11.cross-laws": "cross antisymmetric, bilinear, orthogonal to both factors, |a x b|^2 == |a|^2|b|^2 - (a.b)^2",
        "C11.unit-laws": "norm2(unit v) * |norm2 v| == norm2 v (norm one), unit v collinear with v, dot(unit v, v) * norm == |norm2 v| (rule nan_to_num_id)",
        "C11.polar-bases": "dot.rhophi_rhophi == Cartesian dot of converted operands; radial^2 of add/subtract.rhophi_rhophi and scale.rhophi == rho2 of the Cartesian result (rule angle_addition)",
        "C11.negation": "neg2D/neg3D/neg4D are scale.dispatch(-1, self) of the planar/spatial/lorentz module",
        "C11.norm-ufuncs": "absolute/square/sqrt/cbrt/power overloads reduce to rho|mag|tau (rho2|mag2|tau2) by dimension in every backend",
    }.items():
        ctx.rule(r, d)

    k, m = ir.param("k"), ir.param("m")

    def check(rule, name, ring, lhs, rhs, w=None, sample=None):
        ok, idx, res = equal_vec(ring, lhs, rhs)
        ctx.ob(rule, name, ok, f"identity fails in component {idx}",
               {"component": idx, "residual": res} if not ok else None, w, sample=sample)

    for dim, D in DIMS.items():
        g, s1, s2 = D["g"], D["s1"], D["s2"]
        a = P(*[f"a{n}" for n in D["names"]])
        b = P(*[f"b{n}" for n in D["names"]])
        cc = P(*[f"c{n}" for n in D["names"]])
        ADD = lambda u, v: K(f"{g}.add", s2, *u, *v)  # noqa: E731
        SUB = lambda u, v: K(f"{g}.subtract", s2, *u, *v)  # noqa: E731
        SC = lambda f, u: K(f"{g}.scale", s1, f, *u)  # noqa: E731
        DOT = lambda u, v: K(f"{g}.dot", s2, *u, *v)[0]  # noqa: E731
        N2 = lambda u: K(f"{g}.{D['norm2']}", s1, *u)[0]  # noqa: E731
        ring = nf.Ring()
        tag = f"{dim}D"
        check("C11.add-commutative", tag, ring, ADD(a, b), ADD(b, a), K.where(f"{g}.add", s2), sample=f"{g}.add[{s2}]")
        check("C11.add-associative", tag, ring, ADD(ADD(a, b), cc), ADD(a, ADD(b, cc)), K.where(f"{g}.add", s2))
        check("C11.subtract-inverse", tag, ring, SUB(a, b), ADD(a, SC(c(-1), b)), K.where(f"{g}.subtract", s2))
        check("C11.subtract-inverse", tag + " roundtrip", ring, ADD(SUB(a, b), b), a, K.where(f"{g}.subtract", s2))
        check("C11.scale-distributes", tag, ring, SC(k, ADD(a, b)), ADD(SC(k, a), SC(k, b)), K.where(f"{g}.scale", s1))
        check("C11.scale-distributes", tag + " scalars", ring, SC(add(k, m), a), ADD(SC(k, a), SC(m, a)), K.where(f"{g}.scale", s1))
        check("C11.scale-composes", tag, ring, SC(k, SC(m, a)), SC(mul(k, m), a), K.where(f"{g}.scale", s1))
        check("C11.scale-composes", tag + " identity", ring, SC(c(1), a), a, K.where(f"{g}.scale", s1))
        check("C11.dot-symmetric", tag, ring, [DOT(a, b)], [DOT(b, a)], K.where(f"{g}.dot", s2))
        check("C11.dot-bilinear", tag + " additive", ring, [DOT(ADD(a, b), cc)], [add(DOT(a, cc), DOT(b, cc))], K.where(f"{g}.dot", s2))
        check("C11.dot-bilinear", tag + " homogeneous", ring, [DOT(SC(k, a), b)], [mul(k, DOT(a, b))], K.where(f"{g}.dot", s2))
        spec = None
        for gi, x, y in zip(D["metric"], a, b):
            term = mul(c(gi), mul(x, y))
            spec = term if spec is None else add(spec, term)
        check("C11.dot-metric", tag, ring, [DOT(a, b)], [spec], K.where(f"{g}.dot", s2),
              sample=f"metric {D['metric']}")
        check("C11.dot-metric", tag + " self", ring, [DOT(a, a)], [N2(a)], K.where(f"{g}.{D['norm2']}", s1))
        # unit
        ringu = nf.Ring(rules=["nan_to_num_id"])
        U = K(f"{g}.unit", s1, *a)
        wU = K.where(f"{g}.unit", s1)
        n2a = N2(a)
        if dim == 4:
            check("C11.unit-laws", tag + " norm", ringu, [mul(N2(U), lib("absolute", n2a))], [n2a], wU)
            nrm = lib("sqrt", lib("absolute", n2a))
            check("C11.unit-laws", tag + " projection", ringu, [mul(DOT(U, a), nrm)], [n2a], wU)
        else:
            check("C11.unit-laws", tag + " norm", ringu, [mul(N2(U), n2a)], [n2a], wU)
            nrm = lib("sqrt", n2a)
            check("C11.unit-laws", tag + " projection", ringu, [DOT(U, a)], [nrm], wU)
        # collinear: U_i a_j == U_j a_i
        lhs, rhs = [], []
        for i in range(dim):
            for j in range(i + 1, dim):
                lhs.append(mul(U[i], a[j]))
                rhs.append(mul(U[j], a[i]))
        check("C11.unit-laws", tag + " collinear", ringu, lhs, rhs, wU)

    # ---- cross ------------------------------------------------------------------------
    a, b, cc = P("ax", "ay", "az"), P("bx", "by", "bz"), P("cx", "cy", "cz")
    ring = nf.Ring()
    CR = lambda u, v: K("spatial.cross", "xy_z_xy_z", *u, *v)  # noqa: E731
    D3 = lambda u, v: K("spatial.dot", "xy_z_xy_z", *u, *v)[0]  # noqa: E731
    A3 = lambda u, v: K("spatial.add", "xy_z_xy_z", *u, *v)  # noqa: E731
    S3 = lambda f, u: K("spatial.scale", "xy_z", f, *u)  # noqa: E731
    wc = K.where("spatial.cross", "xy_z_xy_z")
    check("C11.cross-laws", "antisymmetric", ring, CR(a, b), [neg(x) for x in CR(b, a)], wc)
    check("C11.cross-laws", "additive", ring, CR(A3(a, b), cc), A3(CR(a, cc), CR(b, cc)), wc)
    check("C11.cross-laws", "homogeneous", ring, CR(S3(k, a), b), S3(k, CR(a, b)), wc)
    check("C11.cross-laws", "orthogonal", ring, [D3(a, CR(a, b)), D3(b, CR(a, b))], [c(0), c(0)], wc)
    check("C11.cross-laws", "lagrange", ring, [D3(CR(a, b), CR(a, b))],
          [sub(mul(D3(a, a), D3(b, b)), mul(D3(a, b), D3(a, b)))], wc)
    check("C11.cross-laws", "right-handed", ring, CR([c(1), c(0), c(0)], [c(0), c(1), c(0)]), [c(0), c(0), c(1)], wc)

    # ---- polar bases --------------------------------------------------------------------
    ringa = nf.Ring(rules=["angle_addition"])
    r1, p1, r2, p2 = P("rho1", "phi1", "rho2", "phi2")
    X = lambda r, p: K("planar.x", "rhophi", r, p)[0]  # noqa: E731
    Y = lambda r, p: K("planar.y", "rhophi", r, p)[0]  # noqa: E731
    c1, c2 = [X(r1, p1), Y(r1, p1)], [X(r2, p2), Y(r2, p2)]
    check("C11.polar-bases", "dot.rhophi_rhophi", ringa, K("planar.dot", "rhophi_rhophi", r1, p1, r2, p2),
          K("planar.dot", "xy_xy", *c1, *c2), K.where("planar.dot", "rhophi_rhophi"))
    for op in ("add", "subtract"):
        pol = K(f"planar.{op}", "rhophi_rhophi", r1, p1, r2, p2)
        car = K(f"planar.{op}", "xy_xy", *c1, *c2)
        check("C11.polar-bases", f"{op}.rhophi_rhophi radial", ringa, [mul(pol[0], pol[0])],
              [K("planar.rho2", "xy", *car)[0]], K.where(f"planar.{op}", "rhophi_rhophi"))
    pol = K("planar.scale", "rhophi", k, r1, p1)
    car = K("planar.scale", "xy", k, *c1)
    check("C11.polar-bases", "scale.rhophi radial", ringa, [mul(pol[0], pol[0])], [K("planar.rho2", "xy", *car)[0]],
          K.where("planar.scale", "rhophi"))

    # ---- negation in the method layer ---------------------------------------------------
    for cls in ("Planar", "Spatial", "Lorentz"):
        ms = class_methods(cls)
        for name, g in (("neg2D", "planar"), ("neg3D", "spatial"), ("neg4D", "lorentz")):
            m_ = ms.get(name)
            if m_ is None:
                continue
            ok = len(m_.sites) == 1 and m_.sites[0].group == g and m_.sites[0].module == "scale" and m_.sites[0].args == ["-1", "self"] and m_.is_property
            ctx.ob("C11.negation", f"{cls}.{name}", ok, f"expected property returning {g}.scale.dispatch(-1, self)",
                   [s.as_dict() for s in m_.sites], f"src/vector/_methods.py:{m_.fn.lineno}")
    ctx.anchor("neg properties", ctx.rule_counts["C11.negation"][0], 6)

    # ---- norm-based ufunc overloads ------------------------------------------------------
    from ..ufuncs import norm_ufunc_obligations

    norm_ufunc_obligations(ctx, "C11.norm-ufuncs")
    # ---- every specialised (non-Cartesian) base of the anchored operations denotes the Cartesian kernel the laws were proved on
    import json

    from .. import denote
    from ..core import VERIF

    ctx.rule("C11.specialised-variants", "for add, subtract, scale, dot, cross, unit (2D/3D/4D): " + denote.RULE_DOC)
    bases = json.loads((VERIF / "tables" / "bases.json").read_text())
    mods = {f"{g}.{op}" for g in ("planar", "spatial", "lorentz") for op in ("add", "subtract", "scale", "dot", "cross", "unit")}
    n = 0
    und = []
    for rec in denote.base_agreement(L, bases, mods):
        n += rec.new_pair
        if rec.status == "undecided":
            und.append(rec.construct)
            continue
        ctx.ob("C11.specialised-variants", rec.construct, rec.status == "proved", rec.message, rec.witness, rec.where, sample=rec.sample)
    ctx.anchor("specialised variants compared with their Cartesian kernel", n, 30)
    ctx.analysed["specialised_variants_undecided"] = und
    if und:
        from .. import singular as _sg
    import re as _re

    ctx.rule("C11.special-arguments",
             "every variant of the scale, evaluated (IEEE point semantics of the inlined IR) on generic operands with special values of the scalar arguments - 0, +-1, +-pi, pi/2, "
             "+-0.5, and for several arguments each in turn - gives the values frozen from the pinned tree in tables/special_args.json: an algebraically equivalent rewrite "
             "with a pole at a half turn / at rest / at zero (s**2/(1+c) for 1-c, (gamma-1)/beta**2 for gamma**2/(1+gamma)) changes them to NaN exactly there")
    _n_sp = _sg.special_obligations(ctx, L, "C11.special-arguments", lambda short: bool(_re.search(r"\.scale$", short)))
    ctx.anchor("scale variants with frozen special-argument values", _n_sp, 10)
    ctx.decline("C11.specialised-variants left undecided (no proof, no differing point): " + ", ".join(und))
    ctx.decline("float rounding; laws for non-Cartesian signatures follow from C01 (same template)")
