"""C12 — equality, inequality and closeness are coherent (exhaustive truth tables)."""
from __future__ import annotations

from .. import boolean, ir, nf
from ..core import AnalysisError
from ..entries import entries_of
from ..loader import fn_where, link
from ..methods import class_methods

LEVEL = "proof"
EXPLANATION = (
    "Every equal/not_equal/isclose table entry (4+36+144 signature pairs each) is inlined into an "
    "expression DAG and abstracted to a boolean formula over comparison atoms (atoms keyed by the "
    "ring normal form of their two sides).  Decided by exhaustive truth table / formula shape: "
    "not_equal == NOT equal for every signature pair; same-system equal is the conjunction of "
    "stored-coordinate equalities; isclose is the same conjunction with lib.isclose(a,b,rtol,atol,"
    "equal_nan) atoms on exactly the pairs equal compares; each atom compares an operand-1-only "
    "expression with an operand-2-only expression; symmetry under operand swap; reflexivity; the "
    "method layer forwards equal/not_equal/isclose to the module of that name with the documented "
    "argument order.  Not decided: lib.isclose's own NaN/inf semantics, float rounding of converted "
    "mixed-system comparisons."
)

GROUPS = ("planar", "spatial", "lorentz")
EXPECT = {"planar": 4, "spatial": 36, "lorentz": 144}


def _deps(node, cache):
    """set of param names a node depends on"""
    r = cache.get(node.id)
    if r is None:
        r = frozenset(x.a[0] for x in ir.walk(node) if x.kind == "param")
        cache[node.id] = r
    return r


def run(ctx):
    L = link(ctx.repo)
    ctx.rule("C12.negation", "not_equal[sig] has the truth table of NOT equal[sig] over their joint comparison atoms")
    ctx.rule("C12.equal-same-system", "equal on operands stored in the same system == AND of (c_i of 1 == c_i of 2) on raw parameters")
    ctx.rule("C12.equal-shape", "equal is a pure conjunction of dim-many == atoms, each comparing an operand-1-only with an operand-2-only expression")
    ctx.rule("C12.isclose-shape", "isclose is a pure conjunction of lib.isclose(a,b,rtol,atol,equal_nan) on exactly the (a,b) pairs equal compares, a from operand 1, b from operand 2")
    ctx.rule("C12.symmetry", "equal[s1,s2](a,b) == equal[s2,s1](b,a)")
    ctx.rule("C12.reflexive", "equal[s,s](a,a) folds to True; every isclose atom of isclose[s,s](a,a) has identical sides")
    ctx.rule("C12.method-forwarding", "Planar/Spatial/Lorentz.equal|not_equal|isclose call <group>.<same name>.dispatch with (extras..., self, other) after the dimension check")
    ctx.trusted_base = [
        "python ast/inspect (link step reads dispatch_map and closure cells)",
        "verifstat.ir inliner (straight-line fragment)",
        "verifstat.nf ring normal form (atom identity)",
        "verifstat.boolean truth-table comparison; a>=b treated as NOT(a<b) (operands without NaN, as the property states)",
    ]
    inl = ir.Inliner()
    total = 0
    for g in GROUPS:
        ents = {}
        for opname in ("equal", "not_equal", "isclose"):
            es = entries_of(L, f"vector._compute.{g}.{opname}")
            ctx.anchor(f"{g}.{opname} entries", len(es), EXPECT[g])
            ents[opname] = {e.sig: e for e in es}
        for sig, e_eq in ents["equal"].items():
            total += 1
            ring = nf.Ring()
            B = boolean.BoolAbs(ring)
            deps_cache: dict = {}
            cname = f"{g}[{e_eq.signame}]"
            if e_eq.nextra != 0:
                raise AnalysisError(f"{e_eq.name}: unexpected extra parameters")
            n_eq = inl.inline(e_eq.fn, e_eq.args())
            f_eq = B.of(n_eq)
            # ---- negation
            e_ne = ents["not_equal"].get(sig)
            if e_ne is None:
                ctx.ob("C12.negation", f"{g}.not_equal[{e_eq.signame}]", False, "table entry missing")
            else:
                f_ne = B.of(inl.inline(e_ne.fn, e_ne.args()))
                w = boolean.compare(f_ne, ("not", f_eq))
                wit = None
                if w is not None:
                    wit = {
                        "assignment": {B.desc[i]: v for i, v in w.items()},
                        "equal": boolean.evalf(f_eq, w),
                        "not_equal": boolean.evalf(f_ne, w),
                    }
                ctx.ob(
                    "C12.negation", f"{g}.not_equal[{e_eq.signame}]", w is None,
                    "not_equal is not the negation of equal", wit, fn_where(e_ne.fn),
                    sample={"equal": ir.show(n_eq)[:200], "atoms": len(B.desc)},
                )
            # ---- shape of equal
            ats = boolean.is_conjunction_of_atoms(f_eq)
            dimn = len(e_eq.kinds[0])
            names1 = set(e_eq.coord_names()[: len(e_eq.kinds[0])])
            names2 = set(e_eq.coord_names()[len(e_eq.kinds[0]):])
            ok = ats is not None and len(set(ats)) == dimn
            pairs = []
            msg = "equal is not a conjunction of one == per coordinate"
            if ok:
                for i in ats:
                    kind, x, y = B.info[i][:3]
                    if kind != "eq":
                        ok = False
                        msg = f"atom '{B.desc[i]}' is not an equality"
                        break
                    dx, dy = _deps(x, deps_cache), _deps(y, deps_cache)
                    if dx <= names1 and dy <= names2 and dx and dy:
                        pairs.append((ring.of(x).key(), ring.of(y).key()))
                    elif dx <= names2 and dy <= names1 and dx and dy:
                        pairs.append((ring.of(y).key(), ring.of(x).key()))
                    else:
                        ok = False
                        msg = f"atom '{B.desc[i]}' does not compare an operand-1 expression with an operand-2 expression"
                        break
            ctx.ob("C12.equal-shape", f"{g}.equal[{e_eq.signame}]", ok, msg, None, fn_where(e_eq.fn))
            # ---- same-system
            if e_eq.ops[0] == e_eq.ops[1]:
                spec = boolean.conj(
                    B.of(ir.mk("cmp", "==", ir.param(f"{k}1"), ir.param(f"{k}2"))) for k in e_eq.kinds[0]
                )
                w = boolean.compare(f_eq, spec)
                ctx.ob(
                    "C12.equal-same-system", f"{g}.equal[{e_eq.signame}]", w is None,
                    "same-system equal is not the conjunction of stored-coordinate equalities",
                    None if w is None else {B.desc[i]: v for i, v in w.items()}, fn_where(e_eq.fn),
                    sample=ir.show(n_eq),
                )
                # reflexive
                co = [ir.param(f"{k}1") for k in e_eq.kinds[0]]
                B2 = boolean.BoolAbs(ring)
                f_rf = B2.of(inl.inline(e_eq.fn, e_eq.args(coord_nodes=co + co)))
                ctx.ob(
                    "C12.reflexive", f"{g}.equal[{e_eq.signame}]", boolean.compare(f_rf, ("const", True)) is None,
                    "equal(a, a) does not fold to True",
                )
            # ---- symmetry
            ops2 = (e_eq.ops[1], e_eq.ops[0])
            sig_sw = tuple(c for op in ops2 for c in op)
            e_sw = ents["equal"].get(sig_sw)
            if e_sw is None:
                ctx.ob("C12.symmetry", f"{g}.equal[{e_eq.signame}]", False, "swapped signature missing from table")
            else:
                n1 = len(e_eq.kinds[0])
                cn = [ir.param(n) for n in e_eq.coord_names()]
                # e_sw's operand 1 is our operand 2
                f_sw = B.of(inl.inline(e_sw.fn, e_sw.args(coord_nodes=cn[n1:] + cn[:n1])))
                w = boolean.compare(f_eq, f_sw)
                ctx.ob(
                    "C12.symmetry", f"{g}.equal[{e_eq.signame}]", w is None,
                    f"equal[{e_eq.signame}](a,b) differs from equal[{e_sw.signame}](b,a)",
                    None if w is None else {B.desc[i]: v for i, v in w.items()}, fn_where(e_eq.fn),
                )
            # ---- isclose
            e_ic = ents["isclose"].get(sig)
            if e_ic is None:
                ctx.ob("C12.isclose-shape", f"{g}.isclose[{e_eq.signame}]", False, "table entry missing")
                continue
            if e_ic.nextra != 3:
                ctx.ob("C12.isclose-shape", f"{g}.isclose[{e_eq.signame}]", False,
                       f"expected 3 extra parameters (rtol, atol, equal_nan), found {e_ic.nextra}", None, fn_where(e_ic.fn))
                continue
            n_ic = inl.inline(e_ic.fn, e_ic.args())
            f_ic = B.of(n_ic)
            ats_ic = boolean.is_conjunction_of_atoms(f_ic)
            okc = ats_ic is not None and len(set(ats_ic)) == dimn
            msg = "isclose is not a conjunction of one lib.isclose per coordinate"
            got = []
            if okc:
                ex = tuple(ir.param(n) for n in e_ic.extra_names())
                for i in ats_ic:
                    info = B.info[i]
                    if info[0] != "lib" or info[1] != "isclose" or info[3] or len(info[2]) != 5:
                        okc = False
                        msg = f"atom '{B.desc[i][:80]}' is not lib.isclose(a, b, rtol, atol, equal_nan)"
                        break
                    a, b = info[2][0], info[2][1]
                    if tuple(info[2][2:]) != ex:
                        okc = False
                        msg = f"atom '{B.desc[i][:80]}' does not pass (rtol, atol, equal_nan) through in this order"
                        break
                    da, db = _deps(a, deps_cache), _deps(b, deps_cache)
                    if not (da and db and da <= names1 and db <= names2):
                        okc = False
                        msg = f"atom '{B.desc[i][:80]}': first argument must come from operand 1, second ('other') from operand 2"
                        break
                    got.append((ring.of(a).key(), ring.of(b).key()))
                if okc and ok and sorted(got) != sorted(pairs):
                    okc = False
                    msg = "isclose compares different (converted) coordinate pairs than equal does for this signature"
            ctx.ob("C12.isclose-shape", f"{g}.isclose[{e_eq.signame}]", okc, msg, None, fn_where(e_ic.fn),
                   sample=ir.show(n_ic)[:300])
            if e_eq.ops[0] == e_eq.ops[1] and okc:
                co = [ir.param(f"{k}1") for k in e_eq.kinds[0]]
                B3 = boolean.BoolAbs(ring)
                f3 = B3.of(inl.inline(e_ic.fn, e_ic.args(coord_nodes=co + co)))
                a3 = boolean.is_conjunction_of_atoms(f3)
                okr = a3 is not None and all(
                    B3.info[i][0] == "lib" and B3.info[i][2][0] is B3.info[i][2][1] for i in a3
                )
                ctx.ob("C12.reflexive", f"{g}.isclose[{e_eq.signame}]", okr, "isclose(a, a) has an atom with different sides")
    ctx.analysed["signature_pairs"] = total
    ctx.analysed["functions_inlined"] = len(inl.visited_fns)

    # ---- method layer -------------------------------------------------------------
    want = {
        "equal": ["self", "other"],
        "not_equal": ["self", "other"],
        "isclose": ["rtol", "atol", "equal_nan", "self", "other"],
    }
    nm = 0
    for cls, g in (("Planar", "planar"), ("Spatial", "spatial"), ("Lorentz", "lorentz")):
        ms = class_methods(cls)
        for name, args in want.items():
            m = ms.get(name)
            cn = f"{cls}.{name}"
            if m is None:
                raise AnalysisError(f"anchor {cn} missing")
            nm += 1
            ok = (
                len(m.sites) == 1
                and m.sites[0].group == g
                and m.sites[0].module == name
                and m.sites[0].args == args
                and not m.sites[0].path
                and any(gd.startswith("_maybe_same_dimension_error(self, other") for gd in m.sites[0].guards)
                and not m.returns
            )
            if name == "isclose":
                ok = ok and m.params == ["self", "other", "rtol", "atol", "equal_nan"]
            ctx.ob(
                "C12.method-forwarding", cn, ok,
                f"expected a single `{g}.{name}.dispatch({', '.join(args)})` after _maybe_same_dimension_error",
                [s.as_dict() for s in m.sites], f"{'src/vector/_methods.py'}:{m.fn.lineno}",
                sample=[s.as_dict() for s in m.sites],
            )
    ctx.anchor("equal/not_equal/isclose methods", nm, 9)

    # ---- allclose = all(isclose(...)) with the tolerances passed through --------------------------------
    import ast
    from ..loader import facts, unparse
    ctx.rule("C12.allclose", "allclose(other, rtol, atol, equal_nan) is all() of isclose(other, rtol=rtol, atol=atol, equal_nan=equal_nan) with the same defaults")
    n_all = 0
    for relp in ("src/vector/backends/numpy.py", "src/vector/backends/awkward.py", "src/vector/backends/object.py", "src/vector/backends/sympy.py", "src/vector/_methods.py"):
        mfacts = facts(relp, ctx.repo)
        for cname, cnode in mfacts.classes.items():
            for st in cnode.body:
                if isinstance(st, ast.FunctionDef) and st.name == "allclose":
                    body = [b for b in st.body if not (isinstance(b, ast.Expr) and isinstance(b.value, ast.Constant))]
                    if len(body) == 1 and isinstance(body[0], ast.Raise):
                        continue  # protocol stub
                    n_all += 1
                    params = [a.arg for a in st.args.args]
                    defaults = [unparse(d) for d in st.args.defaults]
                    from ..loader import return_text
                    rt = return_text(st)  # single-assignment locals inlined
                    ret = rt[len("return "):] if rt and rt.startswith("return ") else None
                    call = "self.isclose(other, rtol=rtol, atol=atol, equal_nan=equal_nan)"
                    ok = params == ["self", "other", "rtol", "atol", "equal_nan"] and defaults == ["1e-05", "1e-08", "False"] \
                        and ret in (f"{call}.all()", f"ak.all({call})", f"numpy.all({call})")
                    ctx.ob("C12.allclose", f"{cname}.allclose", ok, f"parameters {params} defaults {defaults} body `{ret}`; expected all() of `{call}`",
                           None, f"{relp}:{st.lineno}", sample={"class": cname, "body": ret})
    ctx.anchor("allclose implementations", n_all, 7)
    ctx.decline("lib.isclose's own semantics for NaN/inf (== implies isclose is argued from the atom pairs being identical)")
    ctx.decline("operator forms (==, !=) reaching these methods: decided under C05 (ufunc/behavior tables)")
    ctx.decline("float rounding of converted coordinates in mixed-system comparisons")
