"""C13 — ranges, sign conventions and classification predicates (interval AI + predicate shapes)."""
from __future__ import annotations

from fractions import Fraction

from .. import interval, ir, lift
from ..core import AnalysisError
from ..entries import entries_of
from ..interval import INF, PI
from ..loader import fn_where, link

LEVEL = "proof"
EXPLANATION = (
    "Ranges: every table entry of phi, deltaphi, theta, deltaangle, rho, rho2, mag, mag2, t, t2 is inlined "
    "and evaluated by an interval abstract interpreter under the documented storage preconditions "
    "(rho >= 0, phi in [-pi,pi], theta in [0,pi], everything else any real): phi, deltaphi in [-pi,pi]; "
    "theta, deltaangle in [0,pi] with the arccos argument clamped into [-1,1]; rho, rho2, mag, mag2, t2 >= 0; "
    "t from tau >= 0 with a non-negative sqrt argument (never NaN).  Signs: tau from t is "
    "copysign(sqrt|s|, s) with s the tau2 symbol (negative exactly for spacelike); costheta/cottheta on "
    "z-stored signatures are z divided by a non-negative quantity.  Predicates: the lifted template of "
    "every is_parallel/is_antiparallel/is_perpendicular/is_timelike/is_lightlike/is_spacelike entry is "
    "brought to the linear form a*S + (b0 + b1*A)*W ⋈ 0 (S the dot-product symbol or its absolute value, "
    "W the product of the two norms or 1, A = |tolerance|) and its solution set in the cosine (resp. tau^2) "
    "is compared with the documented set by endpoint algebra; the three causal classes are pairwise "
    "disjoint for every A >= 0.  Not decided: beta in [0,1) / gamma >= 1 (relational fact mag < t), the sign "
    "of costheta on theta/eta-stored signatures, behaviour exactly at the boundaries in float64."
)

RANGES = {
    # module: (lo, hi, note)
    "planar.phi": (-PI, PI), "planar.deltaphi": (-PI, PI),
    "spatial.theta": (0.0, PI), "spatial.deltaangle": (0.0, PI),
    "planar.rho": (0.0, INF), "planar.rho2": (0.0, INF),
    "spatial.mag": (0.0, INF), "spatial.mag2": (0.0, INF),
    "lorentz.t2": (0.0, INF),
}
COUNTS = {"planar.phi": 2, "planar.deltaphi": 4, "spatial.theta": 6, "spatial.deltaangle": 36, "planar.rho": 2,
          "planar.rho2": 2, "spatial.mag": 6, "spatial.mag2": 6, "lorentz.t2": 12, "lorentz.t": 12}

# definedness obligations that need a relational fact the interval domain cannot express (never reported as held
# or violated); everything else that was provable on the pinned tree must stay provable
RELATIONAL = {
    ("spatial.theta", "arccos"): "|z| <= mag (theta = arccos(z/mag) is unclamped in theta.xy_z / theta.rhophi_z)",
    ("spatial.deltaangle", "arccos"): "n/a",
}
del RELATIONAL[("spatial.deltaangle", "arccos")]

# documented sets: kind, kappa = p + q*A
DOC = {
    "is_parallel": ("above", (1, -1), "cos >= 1 - A"),
    "is_antiparallel": ("below", (-1, 1), "cos <= -1 + A"),
    "is_perpendicular": ("inside", (0, 1), "|cos| <= A"),
    "is_timelike": ("above", (0, 1), "tau2 > A"),
    "is_lightlike": ("inside", (0, 1), "|tau2| <= A"),
    "is_spacelike": ("below", (0, -1), "tau2 < -A"),
}


_BOUNDARY_VECTORS = [(1.0, 1.0, 1.0), (0.1, 0.2, 0.3), (3.0, 4.0, 5.0), (1.0, 2.0, 3.0), (-1.0, 0.5, 2.0), (0.3, -0.7, 0.2), (2.5, 0.1, -1.5), (1e-3, 2e-3, 5e-3),
                     (7.0, -3.0, 0.5), (0.6, 0.8, 0.0), (1.1, 2.2, 3.3), (0.9, -0.1, 0.4)]


def _stored_coordinate(kind, x, y, z):
    """the stored coordinates of the Cartesian point in one coordinate class, computed the way the library's own conversions compute them"""
    import math
    rho = math.sqrt(x * x + y * y)
    return {"x": x, "y": y, "rho": rho, "phi": math.atan2(y, x), "z": z, "theta": math.atan2(rho, z), "eta": math.asinh(z / rho) if rho else math.copysign(math.inf, z)}[kind]


def _boundary_witness(node):
    """a pair of parallel or antiparallel operands (the same Cartesian vector, a positive or negative multiple) at which the expression, evaluated with IEEE double
    semantics, is NaN although every operand is finite and off the z axis"""
    import re
    from ..singular import ieee
    params = sorted({x.a[0] for x in ir.walk(node) if x.kind == "param"})
    parts = {}
    for p_ in params:
        m = re.fullmatch(r"([a-z]+)([12]?)", str(p_))
        if m is None or m.group(1) not in ("x", "y", "rho", "phi", "z", "theta", "eta"):
            return None
        parts[p_] = (m.group(1), m.group(2))
    for v in _BOUNDARY_VECTORS:
        for scale in (1.0, 2.0, -1.0, -0.5):
            env = {}
            for p_, (kind, which) in parts.items():
                k = scale if which == "2" else 1.0
                env[p_] = _stored_coordinate(kind, k * v[0], k * v[1], k * v[2])
            try:
                val = ieee(node, env)
            except (ArithmeticError, ValueError, KeyError):
                continue
            if val != val:
                return {"point": env, "problem": f"NaN for the {'parallel' if scale > 0 else 'antiparallel'} operands {v} and {scale} * {v} (IEEE double evaluation of the inlined entry)"}
    return None


def run(ctx):
    L = link(ctx.repo)
    ctx.trusted_base = [
        "python ast/inspect link step", "verifstat.ir inliner",
        "verifstat.interval transfer functions (standard real-interval semantics of + - * / ** % sqrt abs sign copysign "
        "exp log sin cos tan sinh arcsinh arctan arctan2 arccos maximum minimum nan_to_num)",
        "verifstat.lift + verifstat.nf for predicate templates",
    ]
    ctx.rule("C13.range", "the accessor's value lies in the documented interval for all operands in the storage domain")
    ctx.rule("C13.defined", "arguments of sqrt / arccos in the accessor are inside the function's domain (no NaN from the formula itself)")
    ctx.rule("C13.tau-sign", "tau derived from t is copysign(sqrt(|s|), s) with s = tau2 of the same operand: negative exactly when t^2 - mag^2 < 0")
    ctx.rule("C13.z-sign", "costheta / cottheta on z-stored signatures are z / (non-negative quantity), hence carry the sign of z")
    ctx.rule("C13.predicate-shape", "the predicate's solution set in cos(angle) (resp. tau2) equals the documented interval set, endpoints linear in A = |tolerance|")
    ctx.rule("C13.causal-partition", "is_timelike, is_lightlike, is_spacelike are pairwise disjoint for every A >= 0")
    inl = ir.Inliner()
    undecided: set = set()

    # ---- ranges -----------------------------------------------------------------------
    for short, (lo, hi) in RANGES.items():
        es = entries_of(L, f"vector._compute.{short}")
        ctx.anchor(f"{short} entries", len(es), COUNTS[short])
        for e in es:
            I = interval.Interp(interval.default_pre)
            node = inl.inline(e.fn, e.args())
            iv = I.of(ir.outputs(node)[0])
            proven = iv.within(lo, hi)
            cex = None
            if not proven:
                # an over-approximation that does not fit is not a refutation: look for a concrete point of the storage domain
                cex = interval.find_counterexample(ir.outputs(node)[0], lo, hi)
                if cex is None:
                    raise AnalysisError(f"UNDECIDED C13.range {e.name}: interval {iv} does not prove [{_f(lo)}, {_f(hi)}] and no counterexample was found "
                                        f"(expression {ir.show(node)[:160]})")
            ctx.ob("C13.range", e.name, proven,
                   f"value {cex.get('value', cex.get('problem')) if cex else ''} at {cex['point'] if cex else ''} is outside [{_f(lo)}, {_f(hi)}]",
                   {"counterexample": cex, "interval": repr(iv), "expr": ir.show(node)[:300]},
                   fn_where(e.fn), sample={"interval": repr(iv), "expr": ir.show(node)[:160]})
            top = ir.outputs(node)[0]
            top_txt = ir.show(top.a[1][0])[:100] if top.kind == "lib" and top.a[1] else None
            for fn, arg, ok, txt in I.definedness:
                # the entry's own outermost sqrt/arccos (inlined callees are checked under their own module)
                if fn in ("sqrt", "arccos") and top.kind == "lib" and top.a[0] == fn and txt == top_txt:
                    if not ok and (short, fn) in RELATIONAL:
                        undecided.add(f"{short}: {fn} argument needs the relational fact {RELATIONAL[(short, fn)]}")
                        continue
                    cex = None
                    if not ok:
                        cex = interval.find_counterexample(top, -INF, INF)
                        if cex is None or "problem" not in cex:
                            # over the reals the argument may stay inside the domain (Cauchy-Schwarz) while rounding pushes it out: IEEE point semantics on
                            # (anti)parallel operand pairs written in each operand's own coordinates
                            cex = _boundary_witness(top)
                        if cex is None or "problem" not in cex:
                            raise AnalysisError(f"UNDECIDED C13.defined {e.name}: {fn} argument ranges over {arg}; not provable and no counterexample found")
                    ctx.ob("C13.defined", f"{e.name}:{fn}({txt[:60]})", ok,
                           f"{cex['problem'] if cex else ''} at {cex['point'] if cex else ''}", {"counterexample": cex}, fn_where(e.fn))
    # t from tau
    es = entries_of(L, "vector._compute.lorentz.t")
    ctx.anchor("lorentz.t entries", len(es), 12)
    for e in es:
        I = interval.Interp(interval.default_pre)
        node = inl.inline(e.fn, e.args())
        iv = I.of(node)
        stored = node.kind == "param"
        if stored:
            continue  # stored t: any real, the statement concerns t derived from tau
        proven = iv.lo >= 0
        cex = None
        if not proven:
            cex = interval.find_counterexample(node, 0.0, INF)
            if cex is None:
                raise AnalysisError(f"UNDECIDED C13.range {e.name}: interval {iv} does not prove t >= 0 and no counterexample was found")
        ctx.ob("C13.range", e.name, proven, f"t derived from tau: {cex}", {"counterexample": cex, "interval": repr(iv)}, fn_where(e.fn),
               sample={"interval": repr(iv), "expr": ir.show(node)[:160]})
        top_txt = ir.show(node.a[1][0])[:100] if node.kind == "lib" and node.a[1] else None
        for fn, arg, ok, txt in I.definedness:
            if fn == "sqrt" and node.kind == "lib" and node.a[0] == "sqrt" and txt == top_txt:
                cex = None
                if not ok:
                    cex = interval.find_counterexample(node, -INF, INF)
                    if cex is None or "problem" not in cex:
                        raise AnalysisError(f"UNDECIDED C13.defined {e.name}: sqrt argument ranges over {arg}; not provable and no counterexample found")
                ctx.ob("C13.defined", f"{e.name}:{fn}({txt[:60]})", ok, f"{cex['problem'] if cex else ''} at {cex['point'] if cex else ''} (NaN)", {"counterexample": cex}, fn_where(e.fn))

    # ---- signs ----------------------------------------------------------------------------
    LF = lift.Lifting(L)
    ring = LF.ring
    for e in LF.shapes["vector._compute.lorentz.tau"].entries:
        outs, views, _ = LF.lift_entry(e)
        o = outs[0]
        if o.kind == "sym":
            continue  # stored tau
        s = ir.sym(("lorentz.tau2", (1,)))
        want = ir.mk("lib", "copysign", (ir.mk("lib", "sqrt", (ir.mk("lib", "absolute", (s,), ()),), ()), s), ())
        ok = ring.of(o).key() == ring.of(want).key()
        ctx.ob("C13.tau-sign", e.name, ok, f"tau is `{ir.show(o)[:160]}`, expected copysign(sqrt(|tau2|), tau2)", None, fn_where(e.fn),
               sample=ir.show(o)[:160])
    for e in LF.shapes["vector._compute.lorentz.tau2"].entries:
        outs, _, _ = LF.lift_entry(e)
        if e.ops[0][2] is L.methods.TemporalT:
            want = ir.mk("op", "-", ir.mk("op", "**", ir.sym(("lorentz.t", (1,))), ir.const(2)), ir.sym(("spatial.mag2", (1,))))
            ok = ring.of(outs[0]).eq(ring.of(want))
            ctx.ob("C13.tau-sign", e.name, ok, f"tau2 is `{ir.show(outs[0])[:160]}`, expected t^2 - mag2", None, fn_where(e.fn))
    for mod in ("costheta", "cottheta"):
        for e in entries_of(L, f"vector._compute.spatial.{mod}"):
            if e.ops[0][1] is not L.methods.LongitudinalZ:
                continue
            node = inl.inline(e.fn, e.args())
            ok, why = _sign_of_param(node, "z1")
            ctx.ob("C13.z-sign", e.name, ok, why, None, fn_where(e.fn), sample=ir.show(node)[:200])
    ctx.anchor("z-sign instances", ctx.rule_counts["C13.z-sign"][0], 4)
    ctx.anchor("tau-sign instances", ctx.rule_counts["C13.tau-sign"][0], 12)

    # ---- predicates -------------------------------------------------------------------------
    refuted_by_points = _predicate_points(ctx, L)
    shape_undecided = []
    causal_sets = {}
    for g, mods in (("planar", ("is_parallel", "is_antiparallel", "is_perpendicular")),
                    ("spatial", ("is_parallel", "is_antiparallel", "is_perpendicular")),
                    ("lorentz", ("is_timelike", "is_lightlike", "is_spacelike"))):
        for mod in mods:
            mn = f"vector._compute.{g}.{mod}"
            sh = LF.shapes.get(mn)
            if sh is None:
                raise AnalysisError(f"anchor {g}.{mod} missing")
            for e in sh.entries:
                outs, _, _ = LF.lift_entry(e)
                kind, kappa, text = DOC[mod]
                try:
                    got = _predicate_set(LF, g, e, outs[0])
                except AnalysisError as err:
                    # outside the linear shape: refute against the documented predicate on a grid of the lifted symbols, else give up (exit 2)
                    w = _predicate_counterexample(g, e, outs[0], (kind, (Fraction(kappa[0]), Fraction(kappa[1]))))
                    if w is None:
                        if e.name not in refuted_by_points:
                            # an algebraic form outside the linear shape that agrees with the documented predicate at every probed
                            # operand pair (C13.predicate-points): not claimed for all operands, not an alarm
                            shape_undecided.append(e.name)
                        continue
                    ctx.ob("C13.predicate-shape", e.name, False,
                           f"predicate is {w['got']} at {w['at']} where the documented predicate ({text}, A = |tolerance|) is {w['want']}; {err}",
                           w, fn_where(e.fn))
                    continue
                ok = got[0] == kind and got[1] == (Fraction(kappa[0]), Fraction(kappa[1]))
                ctx.ob("C13.predicate-shape", e.name, ok,
                       f"predicate holds on {_show_set(got)}; documented: {text}",
                       {"found": _show_set(got), "documented": text, "example": _witness(got, (kind, kappa))},
                       fn_where(e.fn), sample={"found": _show_set(got), "lifted": ir.show(outs[0])[:200]})
                if g == "lorentz":
                    causal_sets.setdefault(e.signame, {})[mod] = got
    for signame, sets in causal_sets.items():
        names = sorted(sets)
        for i in range(len(names)):
            for j in range(i + 1, len(names)):
                a, b = sets[names[i]], sets[names[j]]
                ov = _overlap(a, b)
                ctx.ob("C13.causal-partition", f"lorentz[{signame}] {names[i]} / {names[j]}", ov is None,
                       f"{names[i]} and {names[j]} are both true for {ov}", {"a": _show_set(a), "b": _show_set(b)})
    for u in sorted(undecided):
        ctx.decline(u)
    ctx.analysed["predicate_shape_undecided"] = shape_undecided
    if shape_undecided:
        ctx.decline("C13.predicate-shape: not in the linear shape a*S + (b0 + b1*|tol|)*W, decided only at the probed operand pairs (C13.predicate-points): " + ", ".join(shape_undecided))
    _forwarding(ctx)
    _beta_gamma(ctx, L)
    from .. import singular

    ctx.rule("C13.singular-points",
             "for the 27 unary compute modules (accessors, norms, unit, beta, gamma, rapidity, Et, Mt, to_beta3): the value of every entry at stored-coordinate points with a group at "
             "a singular value (zero azimuth, theta in {0, pi}, eta in {+-inf, 0}, z = 0, t = 0, tau = 0 - 3528 points), computed from the inlined IR in IEEE point semantics, equals the "
             "convention frozen from the pinned tree in tables/singular.json (zero vector -> 0, on-axis eta -> +-inf with the sign of z, t from tau >= 0 ...): reported when a finite "
             "value became NaN/inf or changed, or an infinity changed sign; a frozen NaN that became finite is accepted")
    nsp = singular.obligations(ctx, L, "C13.singular-points")
    ctx.anchor("entries with frozen singular-point conventions", nsp, 200)
    ctx.decline("sign of costheta/cottheta on theta- and eta-stored signatures is not decided here; those entries are proved equal to the z-stored entry (whose sign is decided by C13.z-sign) under C01.base-agreement")
    ctx.decline("behaviour exactly at interval boundaries in float64 (open vs closed endpoints are not distinguished)")


def _stored(kinds, X, Y, Z, T):
    import math

    mag = math.sqrt(X * X + Y * Y + Z * Z)
    rho = math.hypot(X, Y)
    s = T * T - mag * mag
    val = {"x": X, "y": Y, "rho": rho, "phi": math.atan2(Y, X), "z": Z, "theta": math.acos(max(-1.0, min(1.0, Z / mag))) if mag else 0.0,
           "eta": math.asinh(Z / rho) if rho else 0.0, "t": T, "tau": math.copysign(math.sqrt(abs(s)), s)}
    return [val[k] for k in kinds]


def _predicate_points(ctx, L):
    """every variant of the six predicates, whatever its algebraic form, evaluated at operands with a known cosine / tau2"""
    import math

    from .. import denote

    ctx.rule("C13.predicate-points",
             "each variant of is_parallel / is_antiparallel / is_perpendicular (2D, 3D) evaluated - point semantics of its inlined IR on the stored coordinates - at operand pairs "
             "constructed with a known angle (0, 1e-3, 0.3, pi/2 -+ 1e-3, pi/2, 2.5, pi - 1e-3, pi; different lengths; three base directions) and tolerances of either sign, and each "
             "variant of is_timelike / is_lightlike / is_spacelike at vectors with known t^2 - |p|^2, gives the documented truth value (points within 1e-7 of a documented boundary "
             "are skipped; angles whose cosine is 1.25x inside / outside each documented threshold are included, so a threshold scaled by a wrong norm shows).  Complements C13.predicate-shape, which decides all operands but only for predicates in the linear shape")
    inl = ir.Inliner()
    bases = [(0.7, -1.3, 0.4), (-1.1, 0.6, -0.9), (0.3, 0.8, 1.7)]
    angles = [0.0, 1e-3, 0.3, math.pi / 2 - 1e-3, math.pi / 2, math.pi / 2 + 1e-3, 2.5, math.pi - 1e-3, math.pi]
    tols = [1e-5, 0.01, -0.01]
    n = 0
    refuted = set()
    for g, mods in (("planar", ("is_parallel", "is_antiparallel", "is_perpendicular")), ("spatial", ("is_parallel", "is_antiparallel", "is_perpendicular")),
                    ("lorentz", ("is_timelike", "is_lightlike", "is_spacelike"))):
        for mod in mods:
            kind, kappa, text = DOC[mod]
            doc = (kind, (Fraction(kappa[0]), Fraction(kappa[1])))
            for e in entries_of(L, f"vector._compute.{g}.{mod}"):
                n += 1
                node = ir.outputs(inl.inline(e.fn, e.args()))[0]
                names = e.coord_names()
                bad = None
                cases = []
                if g == "lorentz":
                    for (X, Y, Z) in bases:
                        mag2 = X * X + Y * Y + Z * Z
                        for s_ in (-0.8 * mag2, -0.05, -1e-9, 0.0, 1e-9, 0.05, 2.0):
                            cases.append((s_, _stored(e.kinds[0], X, Y, Z, math.sqrt(mag2 + s_))))
                else:
                    for (X, Y, Z) in bases:
                        if g == "planar":
                            Z = 0.0
                        a = (X, Y, Z)
                        na = math.sqrt(X * X + Y * Y + Z * Z)
                        ah = tuple(c_ / na for c_ in a)
                        # a unit vector perpendicular to a (in the plane for 2D)
                        if g == "planar":
                            nh = (-ah[1], ah[0], 0.0)
                        else:
                            ref = (0.0, 0.0, 1.0) if abs(ah[2]) < 0.9 else (1.0, 0.0, 0.0)
                            cr = (ah[1] * ref[2] - ah[2] * ref[1], ah[2] * ref[0] - ah[0] * ref[2], ah[0] * ref[1] - ah[1] * ref[0])
                            ncr = math.sqrt(sum(c_ * c_ for c_ in cr))
                            nh = tuple(c_ / ncr for c_ in cr)
                        near = []
                        for A_ in (1e-5, 0.01):
                            for c_ in (A_ / 1.25, 1.25 * A_, -A_ / 1.25, -1.25 * A_, 1 - A_ / 1.25, 1 - 1.25 * A_, -1 + A_ / 1.25, -1 + 1.25 * A_):
                                near.append(math.acos(c_))
                        for th in angles + near:
                            for k in (0.6, 2.5):
                                b = tuple(k * (math.cos(th) * ah[i] + math.sin(th) * nh[i]) for i in range(3))
                                cases.append((math.cos(th), _stored(e.kinds[0], *a, 0.0) + _stored(e.kinds[1], *b, 0.0)))
                for x, vals in cases:
                    for tol in tols:
                        A = abs(tol)
                        iv = _intervals(doc, Fraction(A).limit_denominator(10 ** 9))
                        if any(abs(x - float(b_)) < 1e-7 for lo, hi in iv for b_ in (lo, hi) if b_ not in (INF, -INF)):
                            continue
                        want = any((lo == -INF or float(lo) < x) and (hi == INF or x < float(hi)) for lo, hi in iv)
                        env = dict(zip(names, vals))
                        env["extra0"] = tol
                        try:
                            got = bool(denote.numeric(node, env))
                        except (KeyError, ValueError, ZeroDivisionError, OverflowError, TypeError):
                            continue
                        if got != want:
                            bad = {"quantity": "tau2" if g == "lorentz" else "cos", "value": x, "tolerance": tol, "got": got, "documented": want,
                                   "stored": {k_: round(v_, 9) for k_, v_ in env.items()}}
                            break
                    if bad:
                        break
                if bad is not None:
                    refuted.add(e.name)
                ctx.ob("C13.predicate-points", e.name, bad is None,
                       (f"returns {bad['got']} for {bad['quantity']} = {bad['value']:.6g}, tolerance {bad['tolerance']}; documented ({text}, A = |tolerance|): {bad['documented']}") if bad else "",
                       bad, fn_where(e.fn))
    ctx.anchor("predicate variants probed", n, 150)
    return refuted


def _forwarding(ctx):
    """the public predicates reach the kernels decided above: same group, same name, tolerance first"""
    from ..methods import class_methods

    ctx.rule("C13.method-forwarding", "Planar/Spatial.is_parallel|is_antiparallel|is_perpendicular and Lorentz.is_timelike|is_lightlike|is_spacelike are one "
                                      "dispatch to the module of the class's own group and the same name, with (tolerance, self[, other])")
    n = 0
    for cls, g, names, args in (("Planar", "planar", ("is_parallel", "is_antiparallel", "is_perpendicular"), ["tolerance", "self", "other"]),
                                ("Spatial", "spatial", ("is_parallel", "is_antiparallel", "is_perpendicular"), ["tolerance", "self", "other"]),
                                ("Lorentz", "lorentz", ("is_timelike", "is_lightlike", "is_spacelike"), ["tolerance", "self"])):
        ms = class_methods(cls)
        for name in names:
            m = ms.get(name)
            if m is None:
                raise AnalysisError(f"anchor {cls}.{name} missing")
            n += 1
            ok = len(m.sites) == 1 and m.sites[0].group == g and m.sites[0].module == name and m.sites[0].args == args
            ctx.ob("C13.method-forwarding", f"{cls}.{name}", ok, f"expected a single {g}.{name}.dispatch({', '.join(args)})",
                   [s_.as_dict() for s_ in m.sites], f"src/vector/_methods.py:{m.fn.lineno}")
    ctx.anchor("predicate methods", n, 9)


def _beta_gamma(ctx, L):
    """beta in [0, 1), gamma >= 1 on forward time-like vectors, beta == 1 on light-like ones: the relational fact
    |p| < t is built into the generators (X, Y, Z, TAU > 0, T := sqrt(TAU^2 + |p|^2)) of the Cartesian denotation (E3b)"""
    from .. import denote, nf

    ctx.rule("C13.beta-gamma",
             "for every lorentz.beta / lorentz.gamma entry, denoted on forward time-like generators (X, Y, Z, TAU > 0; t = sqrt(TAU^2 + |p|^2); stored "
             "coordinates by their documented definitions): beta >= 0 and 1 - beta^2 > 0, gamma >= 0 and gamma^2 - 1 >= 0, each by the evident sign of the "
             "normal form's numerator and denominator (every term of one sign over atoms that are squares or declared positive); with TAU = 0 beta's "
             "normal form is 1.  HELD only by that proof; VIOLATED only with a concrete forward time-like point outside the range; otherwise undecided (listed)")
    D = denote.Denoter(L)
    undecided = []
    n = 0
    for mod in ("beta", "gamma"):
        for e in entries_of(L, f"vector._compute.lorentz.{mod}"):
            n += 1
            gens = [denote.generators(1, tau_stored=True)]
            ring = denote.make_ring(gens, 0)
            _, nodes, _ = D.denote(e, gens, [])
            r = ring.of(nodes[0])
            one = ring.const(1)
            margin = (one - r * r) if mod == "beta" else (r * r - one)

            def signs(x, strict):
                num, den = nf.R(ring, x.n), nf.R(ring, x.d)
                f = ring._strictly_signed if strict else ring.evident_sign
                a, b = f(num), ring._strictly_signed(den) if x.d is not nf.P_ONE else 1
                if a is None or b is None:
                    return None
                return a * b

            v_ok = signs(r, False)  # gamma >= 0 and gamma^2 >= 1 give gamma >= 1
            m_ok = signs(margin, mod == "beta")
            proved = v_ok is not None and v_ok >= 0 and m_ok is not None and m_ok >= (1 if mod == "beta" else 0)
            doc = "beta in [0, 1)" if mod == "beta" else "gamma >= 1"
            if proved:
                ctx.ob("C13.beta-gamma", f"{e.name} forward time-like", True, "", None, fn_where(e.fn),
                       sample={"value": ring.show(r)[:120], "margin": ring.show(margin)[:160], "documented": doc})
            else:
                w = _bg_witness(nodes[0], mod)
                if w is not None:
                    ctx.ob("C13.beta-gamma", f"{e.name} forward time-like", False,
                           f"{mod} = {w['value']:.6g} at the forward time-like point {w['point']}; documented {doc}", w, fn_where(e.fn))
                else:
                    undecided.append(f"{e.name} forward time-like")
            if mod == "beta":
                g0 = denote.generators(1)
                mag2 = denote.add(denote.add(denote.sq(g0["X"]), denote.sq(g0["Y"])), denote.sq(g0["Z"]))
                g0["T"] = denote.lib("sqrt", mag2)
                if any("tau" in ks for ks in e.kinds):
                    continue  # tau == 0 stored literally: beta = mag / t with t = sqrt(0 + mag2) is the t-stored case below
                ring0 = denote.make_ring([g0], 0)
                _, nodes0, _ = D.denote(e, [g0], [])
                r0 = ring0.of(nodes0[0])
                if r0.eq(ring0.const(1)):
                    ctx.ob("C13.beta-gamma", f"{e.name} light-like", True, "", None, fn_where(e.fn))
                else:
                    w = _bg_witness(nodes0[0], "lightlike")
                    if w is not None:
                        ctx.ob("C13.beta-gamma", f"{e.name} light-like", False,
                               f"beta = {w['value']:.9g} on the light-like vector {w['point']}; documented 1", w, fn_where(e.fn))
                    else:
                        undecided.append(f"{e.name} light-like")
    ctx.anchor("beta/gamma entries", n, 24)
    ctx.analysed["beta_gamma_undecided"] = undecided
    if undecided:
        ctx.decline("C13.beta-gamma left undecided (no evident-sign proof, no point outside the range): " + ", ".join(undecided))


def _bg_witness(node, mode):
    import math

    from .. import denote

    for j, pt in enumerate(denote.POINTS):
        env = {"X1": pt["X"], "Y1": pt["Y"], "Z1": pt["Z"], "TAU1": denote.SCALARS[j % len(denote.SCALARS)] * 2.0}
        try:
            v = denote.numeric(node, env)
        except (ValueError, ZeroDivisionError, OverflowError, TypeError, KeyError):
            continue
        if isinstance(v, complex) or v != v:
            bad = True
        elif mode == "beta":
            bad = not (0 <= v < 1)
        elif mode == "gamma":
            bad = not (v >= 1)
        else:
            bad = abs(v - 1) > 1e-9
        if bad:
            return {"value": v if not isinstance(v, complex) else float("nan"), "point": {k: round(x, 6) for k, x in env.items()}}
    return None


def _f(x):
    return "pi" if x == PI else "-pi" if x == -PI else repr(x)


def _sign_of_param(node, pname):
    """True if node = nan_to_num?( param / D ) or param * D with D >= 0"""
    n = node
    if n.kind == "lib" and n.a[0] == "nan_to_num":
        n = n.a[1][0]
    if n.kind == "op" and n.a[0] in ("/", "*"):
        x, y = n.a[1], n.a[2]
        if x.kind == "param" and x.a[0] == pname:
            I = interval.Interp(interval.default_pre)
            iv = I.of(y)
            if iv.lo >= 0:
                return True, ""
            return False, f"divisor/factor ranges over {iv}, not non-negative"
    return False, f"expression `{ir.show(node)[:120]}` is not {pname} times or divided by a non-negative quantity"


def _predicate_set(LF, g, e, node):
    """('above'|'below'|'inside'|'outside', (p, q)) for the lifted predicate"""
    ring = LF.ring
    if node.kind != "cmp" or node.a[0] not in ("<", ">", "<=", ">="):
        raise AnalysisError(f"{e.name}: predicate is not an ordering comparison: {ir.show(node)[:120]}")
    op, Ln, Rn = node.a
    if op in (">", ">="):
        Ln, Rn = Rn, Ln  # now L < R
    diff = ring.of(Ln) - ring.of(Rn)
    if not diff.is_poly():
        raise AnalysisError(f"{e.name}: predicate sides are not polynomial in the lifted symbols")
    two = len(e.ops) == 2
    if two:
        normname = {"planar": "planar.rho", "spatial": "spatial.mag"}[g]
        dot = ring.atom(("sym", (f"{g}.dot", (1, 2))))
        W = tuple(sorted([(ring.atom(("sym", (normname, (1,)))), 1), (ring.atom(("sym", (normname, (2,)))), 1)]))
    else:
        dot = ring.atom(("sym", ("lorentz.dot", (1, 1))))
        W = ()
    absdot = ring.fn("absolute", [ring.atom_R(("sym", (f"{g}.dot", (1, 2) if two else (1, 1))))])
    absdot_id = ring.single_atom(absdot)
    tol = ring.fn("absolute", [ring.atom_R(("param", "extra0"))])
    tol_id = ring.single_atom(tol)
    a = {"plain": Fraction(0), "abs": Fraction(0)}
    b0 = b1 = Fraction(0)
    for m, cf in diff.n.items():
        if m == ((dot, 1),):
            a["plain"] += cf
        elif m == ((absdot_id, 1),):
            a["abs"] += cf
        elif tuple(sorted(m)) == W:
            b0 += cf
        elif tuple(sorted(m)) == tuple(sorted(W + ((tol_id, 1),))):
            b1 += cf
        else:
            raise AnalysisError(f"{e.name}: predicate is not of the linear form a*S + (b0 + b1*|tol|)*W: unexpected term {ring.show_poly({m: cf})}")
    if (a["plain"] != 0) == (a["abs"] != 0):
        raise AnalysisError(f"{e.name}: predicate must involve the dot product either plainly or through absolute()")
    use_abs = a["abs"] != 0
    av = a["abs"] if use_abs else a["plain"]
    kappa = (-b0 / av, -b1 / av)
    # av * s + b0 + b1 A < 0
    if av > 0:
        kind = "inside" if use_abs else "below"
    else:
        kind = "outside" if use_abs else "above"
    return (kind, kappa)


def _predicate_counterexample(g, e, node, doc):
    """evaluate the lifted predicate (point semantics of the IR; lifted symbols are free variables) against the documented one"""
    from .. import denote

    two = len(e.ops) == 2
    syms = {x.a[0] for x in ir.walk(node) if x.kind == "sym"}
    params = {x.a[0] for x in ir.walk(node) if x.kind == "param"}
    if two:
        normname = {"planar": "planar.rho", "spatial": "spatial.mag"}[g]
        known = {(f"{g}.dot", (1, 2)), (normname, (1,)), (normname, (2,))}
    else:
        known = {("lorentz.dot", (1, 1)), ("lorentz.tau2", (1,))}
    if not syms <= known or not params <= {"extra0"}:
        return None
    xs = [-1.0, -0.999995, -0.9, -0.5, -0.05, -2e-6, 0.0, 2e-6, 0.05, 0.5, 0.9, 0.999995, 1.0] if two else [-1.0, -0.05, -2e-6, -1e-12, 0.0, 1e-12, 2e-6, 0.05, 1.0]
    for tol in (0.0, 1e-5, 0.1, -0.1, -1e-5, 0.3):
        A = abs(tol)
        iv = _intervals(doc, Fraction(A).limit_denominator(10**9))
        for x in xs:
            # stay away from the documented boundaries (open/closed endpoints are not distinguished)
            if any(abs(x - float(b)) < 1e-9 for lo, hi in iv for b in (lo, hi) if b not in (INF, -INF)):
                continue
            want = any((lo == -INF or float(lo) < x) and (hi == INF or x < float(hi)) for lo, hi in iv)
            for w1, w2 in (((1.3, 0.7),) if two else ((1.0, 1.0),)):
                env = {"extra0": tol}
                if two:
                    env[(f"{g}.dot", (1, 2))] = x * w1 * w2
                    env[(normname, (1,))] = w1
                    env[(normname, (2,))] = w2
                else:
                    env[("lorentz.dot", (1, 1))] = x
                    env[("lorentz.tau2", (1,))] = x
                try:
                    got = bool(denote.numeric(node, env))
                except (KeyError, ValueError, ZeroDivisionError, OverflowError, TypeError):
                    return None
                if got != want:
                    return {"got": got, "want": want, "at": {"cos" if two else "tau2": x, "tolerance": tol}}
    return None


def _show_set(s):
    kind, (p, q) = s
    k = _lin(p, q)
    return {"below": f"s < {k}", "above": f"s > {k}", "inside": f"|s| < {k}", "outside": f"|s| > {k}"}[kind]


def _lin(p, q):
    if q == 0:
        return f"{p}"
    qs = "A" if q == 1 else "-A" if q == -1 else f"{q}*A"
    return qs if p == 0 else f"{p} + {qs}".replace("+ -", "- ")


def _val(k, A):
    return k[0] + k[1] * A


def _intervals(s, A):
    kind, k = s
    v = _val(k, A)
    if kind == "below":
        return [(-INF, v)]
    if kind == "above":
        return [(v, INF)]
    if kind == "inside":
        return [(-v, v)] if v > 0 else []
    return [(-INF, -v), (v, INF)] if v > 0 else [(-INF, INF)]


def _lin_intervals(s):
    """intervals with endpoints as linear forms (p, q) in A, or +-INF; 'inside'/'outside' assume kappa(A) > 0 is checked by caller"""
    kind, k = s
    nk = (-k[0], -k[1])
    if kind == "below":
        return [(-INF, k)]
    if kind == "above":
        return [(k, INF)]
    if kind == "inside":
        return [(nk, k)]
    return [(-INF, nk), (k, INF)]


def _solve_lt(lo, hi):
    """set of A >= 0 with lo(A) < hi(A) as (Amin, Amax, nonempty) over the extended reals (open interval)"""
    if lo == -INF or hi == INF:
        return (Fraction(0), INF)
    if lo == INF or hi == -INF:
        return None
    dp, dq = hi[0] - lo[0], hi[1] - lo[1]  # need dp + dq*A > 0
    if dq == 0:
        return (Fraction(0), INF) if dp > 0 else None
    r = -dp / dq
    if dq > 0:
        return (max(r, Fraction(0)), INF)
    return (Fraction(0), r) if r > 0 else None


def _overlap(a, b):
    """None if the two sets are disjoint for every A >= 0 (exact: endpoints are linear in A), else a description"""
    for (l1, h1) in _lin_intervals(a):
        for (l2, h2) in _lin_intervals(b):
            # non-empty intersection iff l1<h1, l2<h2, l1<h2, l2<h1 simultaneously
            lo_a, hi_a = Fraction(0), INF
            ok = True
            for lo, hi in ((l1, h1), (l2, h2), (l1, h2), (l2, h1)):
                r = _solve_lt(lo, hi)
                if r is None:
                    ok = False
                    break
                lo_a, hi_a = max(lo_a, r[0]), min(hi_a, r[1])
            if ok and lo_a < hi_a:
                A = lo_a + 1 if hi_a == INF else (lo_a + hi_a) / 2
                def val(e):
                    return e if e in (INF, -INF) else e[0] + e[1] * A
                lo, hi = max(val(l1), val(l2)), min(val(h1), val(h2))
                return f"every A in ({lo_a}, {hi_a}), e.g. A = {A}: s in ({lo}, {hi})"
    return None


def _witness(got, doc):
    for A in (Fraction(1, 10), Fraction(1, 2), Fraction(0)):
        g = _intervals(got, A)
        d = _intervals((doc[0], (Fraction(doc[1][0]), Fraction(doc[1][1]))), A)
        for c in (Fraction(-1), Fraction(-9, 10), Fraction(-1, 2), Fraction(0), Fraction(1, 20), Fraction(1, 2), Fraction(9, 10), Fraction(1), Fraction(-1, 20)):
            ing = any(lo < c < hi for lo, hi in g)
            ind = any(lo < c < hi for lo, hi in d)
            if ing != ind:
                return f"A={A}, s={c}: implementation says {ing}, documentation says {ind}"
    return None
