"""C14 — momentum names are exact synonyms of the geometric names."""
from __future__ import annotations

import ast
import itertools

from .. import objmodel as om
from ..core import AnalysisError
from ..loader import facts, literal, return_text, unparse
from ..peval import BUILTINS, FuncVal, Inst, Interp, Opaque, PyRaise, Undecided, World
from ..props.c06 import finalize

LEVEL = "other"
EXPLANATION = (
    "Exhaustive over the synonym table and every backend, by abstract interpretation of the syntax trees: "
    "(1) every momentum property (px, py, pt, pt2, pz, p, p2, pseudorapidity, E/e/energy, E2/e2/energy2, "
    "M/m/mass, M2/m2/mass2, Et/et/transverse_energy, Mt/mt/transverse_mass and squares) read on an abstract "
    "vector of each momentum class of each backend (object, NumPy, Awkward array and record, SymPy) resolves, "
    "through the class's real MRO, to the dispatch of the same compute module as the geometric name; "
    "(2) synonym setters build the same coordinate object as the generic setters (object and SymPy); "
    "(3) NumPy _getitem/_setitem translate a field name through the synonym table iff the array is a momentum "
    "array, for string and non-string indices, and every name they use is defined on both flavors; the six "
    "vector classes pass the right flag; (4) Momentum*.__array_finalize__ renames dtype fields through the same "
    "table and the generic classes do not rename; (5) the Awkward from_fields/from_momentum_fields cascades pick, "
    "for every subset of a group's spellings, a coordinate class whose columns are spellings of its coordinates "
    "(momentum classes use from_momentum_fields, generic ones from_fields); (6) the to_pxpy... conversions are "
    "decided under C04.  Nothing numeric is involved; not decided: run-time attribute lookup quirks of ndarray / "
    "ak.Array subclasses outside the computed MRO."
)

DOC_SYN = om.DOC_SYN
PROPS = {
    "px": "planar.x", "py": "planar.y", "pt": "planar.rho", "pt2": "planar.rho2",
    "pz": "spatial.z", "pseudorapidity": "spatial.eta", "p": "spatial.mag", "p2": "spatial.mag2",
    "E": "lorentz.t", "e": "lorentz.t", "energy": "lorentz.t", "E2": "lorentz.t2", "e2": "lorentz.t2", "energy2": "lorentz.t2",
    "M": "lorentz.tau", "m": "lorentz.tau", "mass": "lorentz.tau", "M2": "lorentz.tau2", "m2": "lorentz.tau2", "mass2": "lorentz.tau2",
    "Et": "lorentz.Et", "et": "lorentz.Et", "transverse_energy": "lorentz.Et",
    "Et2": "lorentz.Et2", "et2": "lorentz.Et2", "transverse_energy2": "lorentz.Et2",
    "Mt": "lorentz.Mt", "mt": "lorentz.Mt", "transverse_mass": "lorentz.Mt",
    "Mt2": "lorentz.Mt2", "mt2": "lorentz.Mt2", "transverse_mass2": "lorentz.Mt2",
}
DIM_OF = {"planar": 2, "spatial": 3, "lorentz": 4}
GENERIC_OF_MODULE = {"planar.x": "x", "planar.y": "y", "planar.rho": "rho", "planar.rho2": "rho2", "spatial.z": "z", "spatial.eta": "eta",
                     "spatial.mag": "mag", "spatial.mag2": "mag2", "lorentz.t": "t", "lorentz.t2": "t2", "lorentz.tau": "tau", "lorentz.tau2": "tau2"}
MOMENTUM_CLASSES = {
    "object": ["MomentumObject2D", "MomentumObject3D", "MomentumObject4D"],
    "numpy": ["MomentumNumpy2D", "MomentumNumpy3D", "MomentumNumpy4D"],
    "sympy": ["MomentumSympy2D", "MomentumSympy3D", "MomentumSympy4D"],
    "awkward": ["MomentumArray2D", "MomentumArray3D", "MomentumArray4D", "MomentumRecord2D", "MomentumRecord3D", "MomentumRecord4D"],
}


def _read(W, cname, attr):
    I = Interp(W)
    self = Inst(W.classes[cname], {"__name__": "self"}, origin="abstract")
    v = I.getattr(self, attr)
    if isinstance(v, Opaque) and isinstance(v.tag, tuple) and v.tag and v.tag[0] == "extcall":
        args = v.tag[2]
        if len(args) == 1 and args[0] is self and not v.tag[3]:
            return v.tag[1]
        return f"{v.tag[1]}(<unexpected arguments>)"
    return repr(v)


def run(ctx):
    W = World(ctx.repo)
    ctx.rule("C14.property", "momentum property on a momentum class resolves to <module>.dispatch(self) of the same compute module as the geometric name")
    ctx.rule("C14.setter", "a synonym's setter stores the same coordinate object as the generic setter (same class, value in the generic field, partner through the same accessor)")
    ctx.rule("C14.numpy-item", "NumPy _getitem/_setitem translate names through _repr_momentum_to_generic iff is_momentum, every name used is defined on both flavors, and the classes pass their own flavor")
    ctx.rule("C14.numpy-finalize", "Momentum*Numpy.__array_finalize__ renames every synonym field to its generic name; VectorNumpy* leaves names alone")
    ctx.rule("C14.awkward-fields", "from_fields / from_momentum_fields choose a coordinate class whose columns are spellings of its own coordinates, for every subset of the group's names")
    ctx.rule("C14.tables", "the synonym table read by the backends is the documented one")

    mf = facts("src/vector/_methods.py", ctx.repo)
    m2g = literal(mf.assigns["_repr_momentum_to_generic"])
    ctx.ob("C14.tables", "_repr_momentum_to_generic", m2g == DOC_SYN, f"table is {m2g}", None, "src/vector/_methods.py")

    # ---- (1) properties ---------------------------------------------------------------------
    n = 0
    for backend, classes in MOMENTUM_CLASSES.items():
        for cname in classes:
            if cname not in W.classes:
                raise AnalysisError(f"anchor class {cname} missing")
            dim = int(cname[-2])
            for prop, module in PROPS.items():
                if DIM_OF[module.split(".")[0]] > dim:
                    continue
                n += 1
                try:
                    got = _read(W, cname, prop)
                except PyRaise as e:
                    got = f"raises {e.exc}: {e.msg[:50]}"
                want = f"vector._compute.{module}.dispatch"
                ok = got == want
                if ok and module in GENERIC_OF_MODULE:
                    # and the geometric name reads the same thing
                    ok = _read(W, cname, GENERIC_OF_MODULE[module]) == want
                ctx.ob("C14.property", f"{cname}.{prop}", ok, f"reads `{got}`, expected `{want}(self)`", None,
                       "src/vector/_methods.py", sample={"property": prop, "resolves_to": got})
    ctx.anchor("momentum property reads", n, 15 * (4 + 8 + 32) // 15 * 0 + 200)

    # ---- (2) setters --------------------------------------------------------------------------
    ns = 0
    for mod, kind in (("vector.backends.object", "Object"), ("vector.backends.sympy", "Sympy")):
        for cname, prop, fn in om.setters_of(W, mod):
            if prop not in DOC_SYN:
                continue
            ns += 1
            exp = om.expected_store(prop, kind)
            r, err = om.run_setter(W, mod, cname, prop, fn)
            where = f"{W.mods[mod].path.name}:{fn.lineno}"
            if err:
                ctx.ob("C14.setter", f"{cname}.{prop}.setter", False, err, None, where)
                continue
            stores, foreign = r
            got = [(s, om.describe_value(v)) for s, v in stores]
            ok = len(got) == 1 and got[0][0] == exp[0] and got[0][1] == (exp[1], exp[2]) and not foreign
            ctx.ob("C14.setter", f"{cname}.{prop}.setter", ok, f"stores {got}, the generic setter stores {exp}", None, where)
    ctx.anchor("synonym setters", ns, 34)

    # ---- (3) numpy item access -------------------------------------------------------------------
    I0 = Interp(W)
    getitem = W.lookup_global("vector.backends.numpy", "_getitem", I0)
    setitem = W.lookup_global("vector.backends.numpy", "_setitem", I0)
    names = list(DOC_SYN) + ["x", "y", "rho", "phi", "z", "theta", "eta", "t", "tau", "charge"]
    for is_mom in (False, True):
        for nm in names:
            want = DOC_SYN.get(nm, nm) if is_mom else nm
            # string index read
            I = Interp(W)
            arr = Inst(W.classes["VectorNumpy4D"], {"__name__": "array"}, origin="abstract")
            try:
                r = I.call_function(getitem, [arr, nm, is_mom], {})
                got = r.tag[2] if isinstance(r, Opaque) and isinstance(r.tag, tuple) and r.tag[0] == "item" else repr(r)
                base = r.tag[1] if isinstance(r, Opaque) and isinstance(r.tag, tuple) else None
                ok = got == want and base is not None and "view" in repr(base) and "ndarray" in repr(base)
                msg = f"reads field {got!r} of {base!r}, expected field {want!r} of array.view(numpy.ndarray)"
            except (PyRaise, Undecided) as e:
                ok, msg = False, f"{type(e).__name__}: {e}"
            ctx.ob("C14.numpy-item", f"_getitem[{nm!r}; is_momentum={is_mom}]", ok, msg, None, "src/vector/backends/numpy.py",
                   sample={"name": nm, "is_momentum": is_mom, "field": want})
            # string index write
            I = Interp(W)
            arr = Inst(W.classes["VectorNumpy4D"], {"__name__": "array"}, origin="abstract")
            what = Opaque("what", "ndarray")
            try:
                I.call_function(setitem, [arr, nm, what, is_mom], {})
                stores = [ev for ev in I.trace if ev[0] == "setitem-opaque"]
                ok = len(stores) == 1 and stores[0][2] == want and stores[0][3] is what and "ndarray" in repr(stores[0][1])
                msg = f"stores {[(ev[2], ev[3]) for ev in stores]}, expected one store of `what` into field {want!r} of array.view(numpy.ndarray)"
            except (PyRaise, Undecided) as e:
                ok, msg = False, f"{type(e).__name__}: {e}"
            ctx.ob("C14.numpy-item", f"_setitem[{nm!r}; is_momentum={is_mom}]", ok, msg, None, "src/vector/backends/numpy.py")
        # non-string index write: structured right-hand side
        for fields in (("x", "y"), ("px", "py"), ("pt", "phi", "pz", "E"), ("rho", "phi", "eta", "mass")):
            I = Interp(W)
            arr = Inst(W.classes["VectorNumpy4D"], {"__name__": "array"}, origin="abstract")
            dtype = Inst(W.classes["VectorNumpy4D"], {"names": tuple(fields), "__name__": "what.dtype"}, origin="abstract")
            what = Inst(W.classes["VectorNumpy4D"], {"dtype": dtype, "__name__": "what"}, origin="abstract")
            cname = f"_setitem[slice; rhs fields={','.join(fields)}; is_momentum={is_mom}]"
            try:
                I.call_function(setitem, [arr, Opaque("where", "slice"), what, is_mom], {})
                stores = [(ev[2], ev[3]) for ev in I.trace if ev[0] == "setitem-opaque"]
                want = [((DOC_SYN.get(f, f) if is_mom else f), f) for f in fields]
                got = [(k, v.tag[2] if isinstance(v, Opaque) and isinstance(v.tag, tuple) and v.tag[0] == "item" else repr(v)) for k, v in stores]
                ok = got == want
                msg = f"stores {got}, expected {want} (target field <- what[field])"
            except PyRaise as e:
                ok, msg = False, f"raises {e.exc}: {e.msg}"
            except Undecided as e:
                ok, msg = False, f"undecided: {e}"
            ctx.ob("C14.numpy-item", cname, ok, msg, None, "src/vector/backends/numpy.py", sample={"fields": fields, "is_momentum": is_mom})
    nf = facts("src/vector/backends/numpy.py", ctx.repo)
    for cname in ("VectorNumpy2D", "VectorNumpy3D", "VectorNumpy4D", "MomentumNumpy2D", "MomentumNumpy3D", "MomentumNumpy4D"):
        flag = "True" if cname.startswith("Momentum") else "False"
        attrs = nf.class_attrs(cname)
        ok = "_IS_MOMENTUM" in attrs and unparse(attrs["_IS_MOMENTUM"]) == flag
        fn = nf.method(cname, "__setitem__")
        body = return_text(fn)
        ok = ok and body == f"return _setitem(self, where, what, {flag})"
        ctx.ob("C14.numpy-item", f"{cname} flavor flag", ok, f"_IS_MOMENTUM={unparse(attrs['_IS_MOMENTUM']) if '_IS_MOMENTUM' in attrs else None}, __setitem__ body `{body}`", None, "src/vector/backends/numpy.py")
    gi = nf.method("GetItem", "__getitem__")
    ctx.ob("C14.numpy-item", "GetItem.__getitem__", return_text(gi) in ("return _getitem(self, where, self.__class__._IS_MOMENTUM)", "return _getitem(self, where, type(self)._IS_MOMENTUM)"),
           f"body is `{return_text(gi)}`", None, "src/vector/backends/numpy.py")

    # ---- (4) finalize renaming ----------------------------------------------------------------------
    base_sets = {2: [("x", "y"), ("rho", "phi")], 3: [("x", "y", "z"), ("rho", "phi", "eta")], 4: [("x", "y", "z", "t"), ("rho", "phi", "theta", "tau")]}
    for dim, sets in base_sets.items():
        for S in sets:
            variants = set()
            for choice in itertools.product(*[[g] + [k for k, v in DOC_SYN.items() if v == g] for g in S]):
                variants.add(tuple(choice))
            for names_in in sorted(variants):
                for flavor in ("Momentum", "Vector"):
                    cname = f"{flavor}Numpy{dim}D"
                    res = finalize(W, cname, list(names_in))
                    if flavor == "Momentum":
                        ok = res[0] == "ok" and res[2] == tuple(S)
                        msg = f"dtype names {names_in} become {res[2] if res[0] == 'ok' else res}, expected {S}"
                    else:
                        has_syn = any(x in DOC_SYN for x in names_in)
                        ok = (res[0] == "ok" and res[2] == tuple(names_in)) if not has_syn else (res[0] == "raise" or res[2] == tuple(names_in))
                        msg = f"generic class: dtype names {names_in} -> {res}"
                    ctx.ob("C14.numpy-finalize", f"{cname}.__array_finalize__[{','.join(names_in)}]", ok, msg, None, "src/vector/backends/numpy.py")

    # ---- (5) awkward field cascades -----------------------------------------------------------------
    groups = {
        "Azimuthal": (["x", "px", "y", "py", "rho", "pt", "phi"], {"XY": ("x", "y"), "RhoPhi": ("rho", "phi")}),
        "Longitudinal": (["z", "pz", "theta", "eta"], {"Z": ("z",), "Theta": ("theta",), "Eta": ("eta",)}),
        "Temporal": (["t", "E", "e", "energy", "tau", "M", "m", "mass"], {"T": ("t",), "Tau": ("tau",)}),
    }
    for grp, (gnames, classes) in groups.items():
        cname = f"{grp}Awkward"
        for meth, allow_syn in (("from_fields", False), ("from_momentum_fields", True)):
            fn, cv = W.find_method(cname, meth)
            if fn is None:
                raise AnalysisError(f"anchor {cname}.{meth} missing")
            total = 0
            for k in range(0, len(gnames) + 1):
                for S in itertools.combinations(gnames, k):
                    total += 1
                    arr = Inst(W.classes["VectorArray4D"], {"__name__": "array"}, origin="abstract")
                    models = {"awkward.fields": lambda I, a, kw, S=S: list(S)}
                    I = Interp(W, ext_models=models)
                    W.module_env("vector.backends.awkward")["_touch"] = ("builtin", "__identity__")
                    try:
                        r = I.call_function(FuncVal(fn, cv.module, bound=W.classes[cname], owner=cv), [arr], {})
                        outcome = ("ok", r)
                    except PyRaise as e:
                        outcome = ("raise", e.exc)
                    avail = {}
                    for f in S:
                        g = DOC_SYN.get(f, f) if allow_syn else f
                        avail.setdefault(g, []).append(f)
                    complete = [c for c, fs in classes.items() if all(x in avail for x in fs)]
                    key = f"{cname}.{meth}[{','.join(S) or '(none)'}]"
                    if outcome[0] == "raise":
                        ok = not complete and outcome[1] == "ValueError"
                        msg = f"raises {outcome[1]} although {complete} is available" if complete else f"raises {outcome[1]}, expected ValueError"
                    else:
                        inst = outcome[1]
                        ok = isinstance(inst, Inst) and inst.cls.name.startswith(cname) and inst.cls.name[len(cname):] in complete
                        msg = f"returns {inst!r}; complete coordinate sets available: {complete}"
                        if ok:
                            for fld in classes[inst.cls.name[len(cname):]]:
                                v = inst.attrs.get(fld)
                                src = v.tag[2] if isinstance(v, Opaque) and isinstance(v.tag, tuple) and v.tag[0] == "item" else None
                                if src not in avail.get(fld, []):
                                    ok = False
                                    msg = f"{inst.cls.name}.{fld} is filled from field {src!r}, not a spelling of {fld}"
                    ctx.ob("C14.awkward-fields", key, ok, msg, None, "src/vector/backends/awkward.py")
            ctx.anchor(f"{cname}.{meth} subsets", total, 2 ** len(gnames))
    af = facts("src/vector/backends/awkward.py", ctx.repo)
    for dim in (2, 3, 4):
        for flavor, meth in (("Vector", "from_fields"), ("Momentum", "from_momentum_fields")):
            cname = f"{flavor}Awkward{dim}D"
            for grp, cap in (("azimuthal", "Azimuthal"), ("longitudinal", "Longitudinal"), ("temporal", "Temporal"))[: dim - 1]:
                fn = af.method(cname, grp)
                body = return_text(fn)
                ctx.ob("C14.awkward-fields", f"{cname}.{grp}", body == f"return {cap}Awkward.{meth}(self)", f"body is `{body}`", None, "src/vector/backends/awkward.py")
    ctx.decline("attribute lookup of ndarray / ak.Array subclasses outside the MRO computed from the class statements")
    ctx.decline("to_pxpy... conversions: decided under C04")


BUILTINS.setdefault("__identity__", lambda I, args, kwargs, node: args[0])
