"""C15 — in-place updates of object vectors match their functional equivalents."""
from __future__ import annotations

import itertools

from .. import objmodel as om
from ..core import AnalysisError
from ..loader import facts
from ..peval import FuncVal, Inst, Interp, Opaque, PyRaise, World
from ..ufuncs import INPLACE, dunder_obligations, extract_array_ufunc

LEVEL = "other"
EXPLANATION = (
    "Per-step rules decided by abstract interpretation of the syntax trees (no code executed); the all-histories "
    "statement follows by induction because each step is a function of the three stored slots only.  (a) Each of "
    "the 37 property setters of the object backend (and the 37 of the SymPy backend) is interpreted on an abstract "
    "vector with an opaque value: it performs exactly one store, to the slot of its coordinate's group, of a fresh "
    "coordinate object of that coordinate's class whose own field is the assigned value and whose partner field is "
    "the partner accessor's dispatch on self (synonym setters resolve to the same generic accessor); longitudinal "
    "and temporal setters store the bare value.  (b) _replace_data is interpreted for every combination of stored "
    "coordinate classes (2 + 6 + 12): each group is rebuilt in the target's own class from the result's accessors "
    "of that class's field names, the target object is returned, and a non-vector result raises TypeError before "
    "any store.  (c) __iadd__/__isub__/__imul__/__itruediv__ are _replace_data(self, <ufunc of the functional "
    "operator>(self, other)); ufunc out= handling stores only through _replace_data.  Not decided: exact float "
    "read-back of a partner coordinate after a system switch (rounding)."
)

AZ = {"XY": ("x", "y"), "RhoPhi": ("rho", "phi")}
LO = {"Z": ("z",), "Theta": ("theta",), "Eta": ("eta",)}
TE = {"T": ("t",), "Tau": ("tau",)}


def run(ctx):
    W = World(ctx.repo)
    ctx.rule("C15.setter", "a coordinate setter makes exactly one store: self.<group> = <class of that coordinate>(value in its own field, partner read through the partner accessor)")
    ctx.rule("C15.replace-data", "_replace_data(obj, result) rebuilds every group of obj in obj's own coordinate class from result's accessors, returns obj, and raises TypeError before any store when result is not a vector object")
    ctx.rule("C15.inplace-operators", "__i<op>__ is _replace_data(self, numpy.<op>(self, other)), the same ufunc as the functional operator")
    ctx.rule("C15.ufunc-out", "__array_ufunc__ branches that produce a vector write `out=` operands only through _replace_data(output, result)")

    for mod, kind, nmin in (("vector.backends.object", "Object", 37), ("vector.backends.sympy", "Sympy", 37)):
        ss = om.setters_of(W, mod)
        ctx.anchor(f"{kind} setters", len(ss), nmin)
        rel = W.mods[mod].path
        for cname, prop, fn in ss:
            exp = om.expected_store(prop, kind)
            name = f"{cname}.{prop}.setter"
            where = f"src/vector/backends/{'object' if kind == 'Object' else 'sympy'}.py:{fn.lineno}"
            if exp is None:
                ctx.ob("C15.setter", name, False, "setter for a name that is not a coordinate or documented synonym", None, where)
                continue
            r, err = om.run_setter(W, mod, cname, prop, fn)
            if err:
                ctx.ob("C15.setter", name, False, err, None, where)
                continue
            stores, foreign = r
            got = [(s, om.describe_value(v)) for s, v in stores]
            ok = len(got) == 1 and got[0][0] == exp[0] and got[0][1] == (exp[1], exp[2]) and not foreign
            ctx.ob("C15.setter", name, ok,
                   f"stores {[(s, d) for s, d in got]}{' plus stores outside self' if foreign else ''}; expected one store {exp[0]} = {exp[1]}({exp[2]})",
                   {"stores": repr(got)[:400]}, where, sample={"store": exp[0], "value": f"{exp[1]}({exp[2]})"})

    # ---- _replace_data --------------------------------------------------------------------
    for mod, kind in (("vector.backends.object", "Object"), ("vector.backends.sympy", "Sympy")):
        I0 = Interp(W)
        try:
            rd = W.lookup_global(mod, "_replace_data", I0)
        except KeyError:
            raise AnalysisError(f"anchor {mod}._replace_data missing") from None
        n = 0
        for dim in (2, 3, 4):
            combos = itertools.product(AZ, *([LO] if dim >= 3 else []), *([TE] if dim >= 4 else []))
            for combo in combos:
                n += 1
                I = Interp(W)
                objcls = W.classes[f"Vector{kind}{dim}D"]
                obj = Inst(objcls, {"__name__": "obj"}, origin="abstract")
                names = [f"Azimuthal{kind}{combo[0]}"]
                fields = [AZ[combo[0]]]
                if dim >= 3:
                    names.append(f"Longitudinal{kind}{combo[1]}")
                    fields.append(LO[combo[1]])
                if dim >= 4:
                    names.append(f"Temporal{kind}{combo[2]}")
                    fields.append(TE[combo[2]])
                for grp, cn in zip(("azimuthal", "longitudinal", "temporal"), names):
                    obj.attrs[grp] = Inst(W.classes[cn], {"__name__": f"old_{grp}"}, origin="abstract")
                result = Inst(W.classes[f"Vector{kind}{dim}D"], {"__name__": "result"}, origin="abstract")
                cname = f"{kind.lower()}._replace_data[{dim}D {'/'.join(combo)}]"
                try:
                    ret = I.call_function(rd, [obj, result], {})
                except PyRaise as e:
                    ctx.ob("C15.replace-data", cname, False, f"raises {e.exc}: {e.msg[:60]}")
                    continue
                stores = [(ev[2], ev[3]) for ev in I.trace if ev[0] == "setattr" and ev[1] is obj]
                ok = ret is obj and [s for s, _ in stores] == ["azimuthal", "longitudinal", "temporal"][: dim - 1]
                msg = "does not return obj or does not store each group exactly once in order"
                if ok:
                    for (slot, val), cn, fl in zip(stores, names, fields):
                        c, d = om.describe_value(val, self_name="result")
                        want = {f: f"vector._compute.{om.ACCESSOR_MODULE[f]}.{f}.dispatch" for f in fl}
                        if c != cn or d != want:
                            ok = False
                            msg = f"{slot} becomes {c}({d}), expected {cn}({want})"
                            break
                ctx.ob("C15.replace-data", cname, ok, msg, None, f"{mod}", sample={"stores": [s for s, _ in stores]})
        ctx.anchor(f"{kind} _replace_data combinations", n, 20)
        # non-vector result: TypeError before any store
        I = Interp(W)
        obj = Inst(W.classes[f"Vector{kind}2D"], {"__name__": "obj"}, origin="abstract")
        obj.attrs["azimuthal"] = Inst(W.classes[f"Azimuthal{kind}XY"], {}, origin="abstract")
        try:
            I.call_function(rd, [obj, Opaque("scalar", "real")], {})
            ok, msg = False, "accepts a non-vector result"
        except PyRaise as e:
            ok = e.exc == "TypeError" and not any(ev[0] == "setattr" for ev in I.trace)
            msg = f"raises {e.exc} after {sum(1 for ev in I.trace if ev[0] == 'setattr')} stores"
        ctx.ob("C15.replace-data", f"{kind.lower()}._replace_data[non-vector result]", ok, msg)

    # ---- in-place operators and out= ---------------------------------------------------------
    dunder_obligations(ctx, "C15.inplace-operators", backends=("object", "sympy"), names=INPLACE)
    import ast
    from ..loader import unparse
    for backend in ("object", "sympy"):
        branches, _, fn = extract_array_ufunc(backend, ctx.repo)
        for node in ast.walk(fn):
            if isinstance(node, ast.For) and unparse(node.iter) == "outputs":
                body = [unparse(s) for s in node.body]
                ctx.ob("C15.ufunc-out", f"{backend}.__array_ufunc__ line {node.lineno}", body == ["_replace_data(output, result)"],
                       f"out= loop body is {body}", None, f"src/vector/backends/{backend}.py:{node.lineno}")
        for b in branches:
            produces_vector = b.ufunc in ("add", "subtract", "multiply", "negative", "true_divide")
            if produces_vector:
                ctx.ob("C15.ufunc-out", f"{backend}.__array_ufunc__[numpy.{b.ufunc}/{''.join(b.kinds)}]", b.out_handling == "replace",
                       f"out= handling is '{b.out_handling}', expected a loop over outputs", None, f"src/vector/backends/{backend}.py:{b.line}")
    ctx.decline("exact float read-back of the partner coordinate after an assignment that switches the stored system (rounding)")
    ctx.decline("behaviour on exotic out= operands; histories are covered by induction over single steps, not enumerated")
