"""C16 — operations never modify their operands (effect / ownership analysis)."""
from __future__ import annotations

import json

from .. import effects, ir
from ..core import VERIF, AnalysisError
from ..entries import all_entries
from ..loader import fn_where, link

LEVEL = "other"
EXPLANATION = (
    "An effect/ownership analysis classifies every store in src/vector (attribute and subscript assignments, "
    "augmented assignments, del, mutating method calls such as append/update/sort/fill/resize, out= and "
    "inplace= keywords) by the freshness of its base object: fresh (allocated in the storing function), "
    "self-slot (self.<attr> in a method), or borrowed (parameters, values reached from them, views, module and "
    "class objects).  Decided: (1) compute functions contain no store of any kind and stay inside the straight-"
    "line fragment (only lib.* and other compute functions are called), so they cannot write into operand arrays; "
    "(2) every borrowed store outside the compute layer belongs to the enumerated explicit in-place API "
    "(tables/effects_allow.json: _replace_data, _setitem, ufunc out=, __setstate__, own **kwargs, constructor "
    "helpers), anything else is a violation naming file, function and target; (3) self.<attr> stores occur only "
    "in constructors, setters, __array_finalize__ and the in-place API; (4) result wrappers write only into "
    "arrays/lists they allocated.  Not decided: aliasing created inside NumPy/Awkward (a result column sharing "
    "memory with an operand column is not a modification)."
)

SELF_SLOT_OK = ("__init__", "__new__", "__array_finalize__", "__setstate__", ".setter")


def load_allow():
    p = VERIF / "tables" / "effects_allow.json"
    if not p.exists():
        raise AnalysisError("tables/effects_allow.json missing")
    return json.loads(p.read_text())


def allowed(store, allow, sites=None):
    if store.own_star:
        return {"category": "own-kwargs", "reason": "*args / **kwargs are objects created for this call"}
    for a in allow["allow"]:
        if a["file"] != store.file or not (a["function"] == "" or store.func == a["function"]):
            continue
        if "elements_of_result" in a:
            # the store goes through the loop variable of `for x in <local unpacked from callee(...)>`, whatever the names are
            if store.origin == ("elem-of-result", a["elements_of_result"]):
                return a
            continue
        if "param" in a:
            # the store goes through the function's parameter number `param`, whatever it is called
            if store.pidx == a["param"]:
                return a
            continue
        if store.target.startswith(a["target"]):
            return a
    # a module-level private helper that loops over a parameter and stores into its elements: fine when every caller hands it the very collection whose
    # elements the caller itself is allowed to store into (an `elements_of_result` entry of the caller)
    if sites is not None and store.origin is not None and store.origin[0] == "elem-of-param" and "." not in store.func and store.func.startswith("_"):
        k = store.origin[1]
        calls = sites.get((store.file, store.func), [])
        if calls and all(len(fr) > k and isinstance(fr[k], tuple) and fr[k][0] == "result-of" and any(
                e["file"] == store.file and e["function"] == fr[k][2] and e.get("elements_of_result") == fr[k][1] for e in allow["allow"]) for fr in calls):
            return {"category": "helper-of-allowed-elements", "reason": f"all {len(calls)} call sites pass the collection whose elements the caller may store into"}
    # a module-level private helper that writes into a parameter is fine when every caller hands it an object of its own
    if sites is not None and store.pidx is not None and "." not in store.func and store.func.startswith("_"):
        calls = sites.get((store.file, store.func), [])
        def owned(fr):
            if len(fr) <= store.pidx:
                return False
            a = fr[store.pidx]
            if a == "fresh":
                return True
            # the caller hands on its own parameter, and stores through that parameter are part of the enumerated in-place API in the caller
            return isinstance(a, tuple) and a[0] == "param" and any(
                e["file"] == store.file and e["function"] == a[1] and e.get("param") == a[2] for e in allow["allow"])
        if calls and all(owned(fr) for fr in calls):
            return {"category": "helper-of-fresh-argument", "reason": f"all {len(calls)} call sites pass an object allocated by the caller (or its own **kwargs), or the parameter through which the caller itself is allowed to store"}
    for pat in allow.get("registration_patterns", []):
        if "/_compute/" in store.file and store.func.startswith(pat["function_prefix"]) and store.target.startswith(pat["target_prefix"]):
            return pat
    return None


def run(ctx):
    L = link(ctx.repo)
    allow = load_allow()
    ctx.rule("C16.compute-pure", "a compute function performs no store (attribute, subscript, augmented, del, mutating call, out=) and inlines within the straight-line fragment")
    ctx.rule("C16.borrowed-store", "a store whose base object was not allocated in the storing function belongs to the enumerated in-place API")
    ctx.rule("C16.self-slot", "self.<attr> stores occur only in constructors, property setters, __array_finalize__/__setstate__ or functions of the in-place API")
    ctx.rule("C16.known", "known finding: store through self.dtype in Momentum*Numpy.__array_finalize__")
    stores = effects.analyse_repo(ctx.repo)
    sites = effects.helper_call_sites(ctx.repo)
    ctx.anchor("stores analysed", len(stores), 600)
    # (1) compute layer
    comp_fn_stores = {}
    for s in stores:
        if "/_compute/" in s.file and s.func != "<module>" and not s.func.startswith(("make_conversion", "make_function")):
            comp_fn_stores.setdefault((s.file, s.func), []).append(s)
    inl = ir.Inliner()
    n = 0
    seen = set()
    for e in all_entries(L):
        n += 1
        try:
            inl.inline(e.fn, e.args())
            ok, msg = True, ""
        except AnalysisError as ex:
            ok, msg = False, str(ex)
        if not ok or e.fn not in seen:
            seen.add(e.fn)
            ctx.ob("C16.compute-pure", f"{e.name}", ok, msg, None, fn_where(e.fn), sample={"entry": e.name})
    ctx.anchor("table entries inlined", n, 2404)
    ctx.analysed["compute_functions_visited"] = len(inl.visited_fns)
    for (f, fn), ss in comp_fn_stores.items():
        for s in ss:
            if s.cls == "fresh" and fn == "dispatch":
                continue
            ctx.ob("C16.compute-pure", f"{f}::{fn}::{s.target}", False, f"{s.kind} store in a compute-layer function ({s.cls} base)", s.as_dict(), f"{f}:{s.line}")
    # (2) borrowed stores
    nb = 0
    for s in stores:
        if "/_compute/" in s.file and s.func == "<module>":
            continue  # import-time table building
        if s.func == "<module>":
            continue  # module level: class cross-references, behavior tables (import time; C20 checks who writes them)
        if s.cls in ("borrowed", "self-deep", "self-item"):
            nb += 1
            a = allowed(s, allow, sites)
            if s.cls == "self-deep" and s.target.startswith("self.dtype.names"):
                ctx.ob("C16.borrowed-store", f"{s.file}::{s.func}::{s.target}", False,
                       "stores into self.dtype, a dtype object shared with the array being viewed: arr.view(MomentumNumpyND) renames the caller's fields",
                       s.as_dict(), f"{s.file}:{s.line}")
                continue
            ctx.ob("C16.borrowed-store", f"{s.file}::{s.func}::{s.target}", a is not None,
                   f"{s.kind} store into a borrowed object ({s.base}) outside the enumerated in-place API", s.as_dict(), f"{s.file}:{s.line}",
                   sample={"store": s.as_dict(), "allowed_as": a.get("category") if a else None})
        elif s.cls == "self-slot":
            ok = any(tok in s.func for tok in SELF_SLOT_OK) or allowed(s, allow, sites) is not None
            ctx.ob("C16.self-slot", f"{s.file}::{s.func}::{s.target}", ok,
                   "stores into self outside constructors/setters/finalizers", s.as_dict(), f"{s.file}:{s.line}")
    ctx.anchor("borrowed stores examined", nb, 30)
    # (3) an operand viewed as a vector class: __array_finalize__ of the momentum classes renames the fields of the dtype object the view shares with the operand
    ctx.rule("C16.operand-view", "no function views one of its operands (a parameter other than self, or a name bound to one) as anything but numpy.ndarray: a view as a vector class "
                                 "runs __array_finalize__, which writes the field names of the dtype object shared with the operand")
    import ast as _ast
    probe = effects._borrowed_views_in(_ast.parse("def _probe(array, what):\n    what = what.view(type(array))\n    return what\n"), "<probe>")
    if len(probe) != 1:
        raise AnalysisError("C16.operand-view: the detector does not recognise its own positive example")
    views = effects.borrowed_views(ctx.repo)
    nviews = sum(1 for p_ in effects.all_source_files(ctx.repo) for n_ in _ast.walk(effects.parse_file(p_)) if isinstance(n_, _ast.Call) and isinstance(n_.func, _ast.Attribute) and n_.func.attr == "view")
    ctx.anchor(".view() call sites scanned", nviews, 30)
    c = ctx.rule_counts.setdefault("C16.operand-view", [0, 0])
    c[0] += nviews - len(views)
    c[1] += nviews - len(views)
    for f, fn, line, text, base in views:
        ctx.ob("C16.operand-view", f"{f}::{fn}::{text}", False, f"operand `{base}` is viewed as a class other than numpy.ndarray: the view shares its dtype object with the caller's array", {"call": text}, f"{f}:{line}")
    ctx.decline("aliasing created inside NumPy/Awkward (views sharing memory are not modifications)")
    ctx.decline("what third-party calls do to their arguments (numpy.sum, ak.zip, ak.transform are assumed not to mutate inputs)")
