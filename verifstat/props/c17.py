"""C17 — reductions of vector arrays are component-wise Cartesian reductions (structural clauses)."""
from __future__ import annotations

import ast

from ..core import AnalysisError
from ..loader import facts, unparse
from ..peval import BUILTINS, FuncVal, Inst, Interp, Opaque, PyRaise, Undecided, World
from ..ufuncs import AWK_NAMES, extract_awkward_behaviors

LEVEL = "other"
EXPLANATION = (
    "The reducers are interpreted abstractly for every vector class of the NumPy backend (6) and the Awkward "
    "backend (6 array classes): numpy._reduce_sum sums exactly the Cartesian accessors available at the operand's "
    "dimension (x, y[, z][, t]) - each obtained through the accessor dispatch, so the stored coordinate system does "
    "not matter - passes the caller's axis and keepdims into every numpy.sum, stores each sum under the field "
    "whose generic name is that accessor (momentum names iff the operand is a momentum array, through the synonym "
    "table), rebuilds the result with array(), and rejects where/initial/out/dtype with ValueError; "
    "_reduce_count_nonzero is rho2 != 0 OR z != 0 OR t2 != 0 by dimension with axis/keepdims passed through; "
    "__array_function__ routes numpy.sum/count_nonzero/isclose/allclose to them.  The Awkward reducers sum "
    "x, y[, z][, t] over axis=1 (the reducer protocol), re-zip with the operand's behavior and record name, count "
    "through the first field, and all three reducers are registered for all six record names.  Not decided: "
    "NumPy/Awkward reduction semantics themselves (empty lists, None handling, axis handling inside Awkward)."
)

GROUP = {"x": "planar", "y": "planar", "z": "spatial", "t": "lorentz", "rho2": "planar", "t2": "lorentz"}
GEN2MOM = {"x": "px", "y": "py", "z": "pz", "t": "E"}


def _accessor(v, self):
    if isinstance(v, Opaque) and isinstance(v.tag, tuple) and v.tag and v.tag[0] == "extcall" and len(v.tag[2]) == 1 and v.tag[2][0] is self:
        return v.tag[1]
    return repr(v)


def run(ctx):
    W = World(ctx.repo)
    ctx.rule("C17.numpy-sum", "numpy _reduce_sum: fields = Cartesian accessors of the operand's dimension, each numpy.sum(accessor, axis=axis, keepdims=keepdims), named by flavor, rebuilt with array()")
    ctx.rule("C17.numpy-sum-rejects", "numpy _reduce_sum raises ValueError for where / initial / out / dtype")
    ctx.rule("C17.numpy-count-nonzero", "numpy _reduce_count_nonzero: count_nonzero(rho2 != 0 | z != 0 | t2 != 0 by dimension, axis=axis, keepdims=keepdims)")
    ctx.rule("C17.numpy-routing", "__array_function__ routes numpy.sum / numpy.count_nonzero / isclose / allclose; VectorNumpy.sum forwards axis and keepdims to numpy.sum")
    ctx.rule("C17.sum-method", "_reduce_sum / _reduce_count_nonzero (what numpy.sum / numpy.count_nonzero are routed to) have the NumPy functions' defaults (axis=None, keepdims=False ...); VectorNumpy.sum(axis=None, dtype=None, out=None, keepdims=False, initial=None, where=None) has numpy.sum's defaults and forwards every parameter by its own name to numpy.sum(self, ...): v.sum() and numpy.sum(v) are the same reduction")
    _sum_method(ctx)
    ctx.rule("C17.awkward-sum", "awkward _reduce_sum: x, y[, z][, t] summed over axis=1, zipped with array.behavior and the operand's record name")
    ctx.rule("C17.awkward-count", "awkward _reduce_count counts the first field; _reduce_count_nonzero is rho2 != 0 | z != 0 | t2 != 0 over axis=1")
    ctx.rule("C17.awkward-registration", "behavior[ak.sum|ak.count|ak.count_nonzero, name] registered for the six record names")

    I0 = Interp(W)
    rs = W.lookup_global("vector.backends.numpy", "_reduce_sum", I0)
    rc = W.lookup_global("vector.backends.numpy", "_reduce_count_nonzero", I0)
    env = W.module_env("vector.backends.numpy")
    W.lookup_global("vector.backends.numpy", "array", I0)
    for dim in (2, 3, 4):
        for flavor in ("Vector", "Momentum"):
            cname = f"{flavor}Numpy{dim}D"
            sums = []
            built = []
            models = {"numpy.sum": lambda I, a, k: (sums.append((a, k)) or Opaque(("sum", len(sums) - 1), "ndarray")),
                      "numpy.logical_or": lambda I, a, k: Opaque(("or", a[0], a[1]), "arraylike"),
                      "numpy.count_nonzero": lambda I, a, k: Opaque(("count_nonzero", a[0], tuple(sorted(k.items(), key=lambda t: t[0]))), "arraylike")}
            BUILTINS["__record_array__"] = lambda I, a, k, n: (built.append((a, k)) or Opaque("built", "ndarray"))
            saved = env.get("array")
            env["array"] = ("builtin", "__record_array__")
            try:
                I = Interp(W, ext_models=models)
                a = Inst(W.classes[cname], {"__name__": "a"}, origin="abstract")
                AX, KD = Opaque("AXIS", "int"), Opaque("KEEPDIMS", "bool")
                try:
                    I.call_function(rs, [a], {"axis": AX, "keepdims": KD})
                    err = None
                except (PyRaise, Undecided) as e:
                    err = f"{type(e).__name__}: {e}"
            finally:
                env["array"] = saved
            want_acc = ["x", "y"] + (["z"] if dim >= 3 else []) + (["t"] if dim >= 4 else [])
            ok = err is None and len(built) == 1 and len(built[0][0]) == 1 and isinstance(built[0][0][0], dict)
            msg = err or "result is not rebuilt with array(<dict of sums>)"
            if ok:
                fields = built[0][0][0]
                want_names = {(GEN2MOM[g] if flavor == "Momentum" else g): g for g in want_acc}
                got = {}
                for k, v in fields.items():
                    idx = v.tag[1] if isinstance(v, Opaque) and isinstance(v.tag, tuple) and v.tag[0] == "sum" else None
                    if idx is None:
                        got[k] = repr(v)
                        continue
                    args, kw = sums[idx]
                    got[k] = (_accessor(args[0], a), kw.get("axis") is AX, kw.get("keepdims") is KD, len(args), sorted(kw))
                want = {n: (f"vector._compute.{GROUP[g]}.{g}.dispatch", True, True, 1, ["axis", "keepdims"]) for n, g in want_names.items()}
                ok = got == want
                msg = f"fields {got}; expected {want}"
            ctx.ob("C17.numpy-sum", f"_reduce_sum({cname})", ok, msg, None, "src/vector/backends/numpy.py", sample={"class": cname, "fields": want_acc})
            # count_nonzero
            I = Interp(W, ext_models=models)
            a = Inst(W.classes[cname], {"__name__": "a"}, origin="abstract")
            AX, KD = Opaque("AXIS", "int"), Opaque("KEEPDIMS", "bool")
            try:
                r = I.call_function(rc, [a], {"axis": AX, "keepdims": KD})
                txt = _flatten_or(r.tag[1], a) if isinstance(r, Opaque) and r.tag[0] == "count_nonzero" else None
                kws = dict(r.tag[2]) if txt is not None else {}
                want = [f"vector._compute.planar.rho2.dispatch != 0"] + (["vector._compute.spatial.z.dispatch != 0"] if dim >= 3 else []) + (["vector._compute.lorentz.t2.dispatch != 0"] if dim >= 4 else [])
                ok = txt == want and kws.get("axis") is AX and kws.get("keepdims") is KD
                msg = f"counts {txt} with {sorted(kws)}; expected {want} with axis, keepdims"
            except (PyRaise, Undecided) as e:
                ok, msg = False, f"{type(e).__name__}: {e}"
            ctx.ob("C17.numpy-count-nonzero", f"_reduce_count_nonzero({cname})", ok, msg, None, "src/vector/backends/numpy.py")
    for kw in ("where", "initial", "out", "dtype"):
        I = Interp(W, ext_models={"numpy.sum": lambda I, a, k: Opaque("s", "ndarray")})
        a = Inst(W.classes["VectorNumpy3D"], {"__name__": "a"}, origin="abstract")
        try:
            I.call_function(rs, [a], {kw: Opaque("given", "notnone")})
            ok, msg = False, f"accepts {kw}="
        except PyRaise as e:
            ok, msg = e.exc == "ValueError", f"raises {e.exc}"
        ctx.ob("C17.numpy-sum-rejects", f"_reduce_sum({kw}=...)", ok, msg, None, "src/vector/backends/numpy.py")

    nf = facts("src/vector/backends/numpy.py", ctx.repo)
    af_ = nf.method("VectorNumpy", "__array_function__")
    # every `if func is numpy.X:` arm (elif chain or a sequence of early returns) and what it returns
    routes = {}
    if af_ is not None:
        for sub in ast.walk(af_):
            if isinstance(sub, ast.If) and isinstance(sub.test, ast.Compare) and len(sub.test.ops) == 1 and isinstance(sub.test.ops[0], ast.Is) \
                    and unparse(sub.test.left) == "func" and sub.body and isinstance(sub.body[-1], ast.Return) and sub.body[-1].value is not None:
                routes.setdefault(unparse(sub.test.comparators[0]), []).append(unparse(sub.body[-1].value) if len(sub.body) == 1 else None)
    for fn_, call in (("numpy.sum", "_reduce_sum(*args, **kwargs)"), ("numpy.count_nonzero", "_reduce_count_nonzero(*args, **kwargs)"),
                      ("numpy.isclose", "type(self).isclose(*args, **kwargs)"), ("numpy.allclose", "type(self).allclose(*args, **kwargs)")):
        ctx.ob("C17.numpy-routing", f"__array_function__[{fn_}]", routes.get(fn_) == [call], f"`func is {fn_}` returns {routes.get(fn_)}; expected `{call}`", None, "src/vector/backends/numpy.py")
    sm = nf.method("VectorNumpy", "sum")
    ssrc = unparse(sm) if sm is not None else ""
    ctx.ob("C17.numpy-routing", "VectorNumpy.sum", all(x in ssrc for x in ("numpy.sum(self", "axis=axis", "keepdims=keepdims")), "must forward self, axis, keepdims to numpy.sum", None, "src/vector/backends/numpy.py")

    # ---- awkward ---------------------------------------------------------------------------------
    ars = W.lookup_global("vector.backends.awkward", "_reduce_sum", I0)
    arc = W.lookup_global("vector.backends.awkward", "_reduce_count", I0)
    arn = W.lookup_global("vector.backends.awkward", "_reduce_count_nonzero", I0)
    for dim in (2, 3, 4):
        for flavor in ("Vector", "Momentum"):
            cname = f"{flavor}Array{dim}D"
            sums, zips = [], []
            models = {
                "numpy.sum": lambda I, a, k: (sums.append((a, k)) or Opaque(("sum", len(sums) - 1), "akarray")),
                "awkward.zip": lambda I, a, k: (zips.append((a, k)) or Opaque("zipped", "akarray")),
                "awkward.to_layout": lambda I, a, k: Opaque(("layout", a[0].attrs.get("__name__") if isinstance(a[0], Inst) else repr(a[0])), "notnone"),
                "numpy.logical_or": lambda I, a, k: Opaque(("or", a[0], a[1]), "arraylike"),
                "awkward.count_nonzero": lambda I, a, k: Opaque(("count_nonzero", a[0], tuple(sorted(k.items(), key=lambda t: t[0]))), "arraylike"),
                "awkward.count": lambda I, a, k: Opaque(("count", a[0], tuple(sorted(k.items(), key=lambda t: t[0]))), "arraylike"),
            }
            I = Interp(W, ext_models=models)
            arr = Inst(W.classes[cname], {"__name__": "array", "fields": ["f0", "f1"]}, origin="abstract")
            try:
                I.call_function(ars, [arr, Opaque("mask_identity", "bool")], {})
                ok = len(zips) == 1
                msg = f"{len(zips)} ak.zip calls"
                if ok:
                    (zargs, zkw) = zips[0]
                    fields = zargs[0]
                    want_acc = ["x", "y"] + (["z"] if dim >= 3 else []) + (["t"] if dim >= 4 else [])
                    got = {}
                    for k, v in fields.items():
                        idx = v.tag[1] if isinstance(v, Opaque) and isinstance(v.tag, tuple) and v.tag[0] == "sum" else None
                        a_, kw_ = sums[idx] if idx is not None else ((None,), {})
                        got[k] = (_accessor(a_[0], arr), kw_.get("axis"))
                    want = {g: (f"vector._compute.{GROUP[g]}.{g}.dispatch", 1) for g in want_acc}
                    beh = zkw.get("behavior")
                    wn = zkw.get("with_name")
                    ok = got == want and isinstance(beh, Opaque) and beh.tag == ("attr", "array", "behavior") and isinstance(wn, Opaque) \
                        and "purelist_parameter" in repr(wn.tag) and "__record__" in repr(wn.tag)
                    msg = f"fields {got}, behavior={beh!r}, with_name={wn!r}; expected {want}, array.behavior, layout.purelist_parameter('__record__')"
            except (PyRaise, Undecided) as e:
                ok, msg = False, f"{type(e).__name__}: {e}"
            ctx.ob("C17.awkward-sum", f"_reduce_sum({cname})", ok, msg, None, "src/vector/backends/awkward.py", sample={"class": cname})
            I = Interp(W, ext_models=models)
            arr = Inst(W.classes[cname], {"__name__": "array"}, origin="abstract")
            try:
                r = I.call_function(arn, [arr, Opaque("mask_identity", "bool")], {})
                txt = _flatten_or(r.tag[1], arr) if isinstance(r, Opaque) and r.tag[0] == "count_nonzero" else None
                want = ["vector._compute.planar.rho2.dispatch != 0"] + (["vector._compute.spatial.z.dispatch != 0"] if dim >= 3 else []) + (["vector._compute.lorentz.t2.dispatch != 0"] if dim >= 4 else [])
                ok = txt == want and dict(r.tag[2]).get("axis") == 1
                msg = f"counts {txt} with {dict(r.tag[2]) if txt is not None else None}; expected {want}, axis=1"
            except (PyRaise, Undecided) as e:
                ok, msg = False, f"{type(e).__name__}: {e}"
            ctx.ob("C17.awkward-count", f"_reduce_count_nonzero({cname})", ok, msg, None, "src/vector/backends/awkward.py")
    fn = facts("src/vector/backends/awkward.py", ctx.repo).functions.get("_reduce_count")
    from ..loader import return_text as _rt

    body = _rt(fn)  # locals inlined: any spelling of "count the first field over axis 1"
    ctx.ob("C17.awkward-count", "_reduce_count", body == "return ak.count(array[array.fields[0]], axis=1)", f"body reads `{body}`; expected ak.count(array[array.fields[0]], axis=1)", None, "src/vector/backends/awkward.py")
    tab = extract_awkward_behaviors(ctx.repo)
    for red, impl in (("ak.sum", "_reduce_sum"), ("ak.count", "_reduce_count"), ("ak.count_nonzero", "_reduce_count_nonzero")):
        for name in AWK_NAMES:
            ent = tab.get((red, repr(name)))
            ctx.ob("C17.awkward-registration", f"behavior[{red}, {name!r}]", ent is not None and ent[1] == impl, f"is {ent[1] if ent else None}, expected {impl}", None, "src/vector/backends/awkward.py")
    ctx.decline("NumPy/Awkward reduction semantics (empty lists summing to zero, None handling, how Awkward maps axis onto the axis=1 reducer protocol)")
    ctx.decline("that component-wise Cartesian sums are representable in the result's float type (rounding)")


def _flatten_or(v, self):
    """or-tree of `accessor != 0` comparisons -> list of texts (left to right)"""
    if isinstance(v, Opaque) and isinstance(v.tag, tuple):
        if v.tag[0] == "or":
            l, r = _flatten_or(v.tag[1], self), _flatten_or(v.tag[2], self)
            return None if l is None or r is None else l + r
        if v.tag[0] == "cmp" and v.tag[1] == "NotEq":
            return [f"{_accessor(v.tag[2], self)} != {v.tag[3]}"]
    return None


def _sum_method(ctx):
    import ast as _ast

    from ..loader import facts as _facts, unparse as _unparse

    nf = _facts("src/vector/backends/numpy.py", ctx.repo)
    fn = nf.method("VectorNumpy", "sum")
    if fn is None:
        raise AnalysisError("anchor VectorNumpy.sum missing")
    want = {"axis": "None", "dtype": "None", "out": "None", "keepdims": "False", "initial": "None", "where": "None"}
    params = [a.arg for a in fn.args.args][1:]
    defaults = [_unparse(d) for d in fn.args.defaults]
    got = dict(zip(params[len(params) - len(defaults):], defaults))
    calls = [c for c in _ast.walk(fn) if isinstance(c, _ast.Call) and _unparse(c.func) in ("numpy.sum", "_reduce_sum")]
    msg = ""
    if got != {k: v for k, v in want.items() if k in params} or any(p_ not in want for p_ in params):
        msg = f"parameters/defaults {got}, numpy.sum has {want}"
    elif len(calls) != 1:
        msg = f"{len(calls)} numpy.sum calls"
    else:
        c = calls[0]
        kws = {k.arg: _unparse(k.value) for k in c.keywords}
        if [_unparse(a) for a in c.args] != ["self"] or kws != {p_: p_ for p_ in params}:
            msg = f"forwards {[_unparse(a) for a in c.args]}, {kws}; expected (self, " + ", ".join(f"{p_}={p_}" for p_ in params) + ")"
    ctx.ob("C17.sum-method", "VectorNumpy.sum", not msg, msg, None, f"src/vector/backends/numpy.py:{fn.lineno}")
    # the functions numpy.sum / numpy.count_nonzero are routed to: same defaults as the NumPy functions they stand for
    for fname, want_f in (("_reduce_sum", {"axis": "None", "dtype": "None", "out": "None", "keepdims": "False", "initial": "None", "where": "None"}),
                          ("_reduce_count_nonzero", {"axis": "None", "keepdims": "False"})):
        f = nf.functions.get(fname)
        if f is None:
            raise AnalysisError(f"anchor {fname} missing")
        names = [a.arg for a in f.args.args]
        d = [_unparse(x) for x in f.args.defaults]
        got_f = dict(zip(names[len(names) - len(d):], d))
        got_f.update({a.arg: (_unparse(v) if v is not None else None) for a, v in zip(f.args.kwonlyargs, f.args.kw_defaults)})
        ctx.ob("C17.sum-method", fname, got_f == want_f, f"defaults {got_f}; numpy.{'sum' if 'sum' in fname else 'count_nonzero'} has {want_f}", None,
               f"src/vector/backends/numpy.py:{f.lineno}")
