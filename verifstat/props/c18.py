"""C18 — Awkward arrays keep structure and extra fields through vector operations (structural clauses)."""
from __future__ import annotations

import ast
import itertools

from .. import ir, wrappers as wr
from ..core import AnalysisError
from ..entries import all_entries
from ..loader import facts, fn_where, link, unparse
from ..peval import FuncVal, Inst, Interp, Opaque, PyRaise, Undecided, World
from ..ufuncs import AWK_NAMES, extract_awkward_behaviors
from .c03 import awkward_field_sets, awkward_spec

LEVEL = "other"
EXPLANATION = (
    "VectorAwkward._wrap_result is interpreted abstractly (ak.zip / ak.fields / ak.broadcast_arrays modelled as "
    "opaque externals) for field sets with two non-coordinate fields: with one vector argument every non-"
    "coordinate field and every stored higher-group coordinate is carried under its own name, every spelling of a "
    "replaced or projected-away coordinate is dropped, and with two vector arguments only coordinates are "
    "returned; depth_limit comes from the first result column's layout.purelist_depth, behavior is None when "
    "globally registered else the first column's, and the record name is that of the projection class.  Record / "
    "scalar inputs go through _yes_record (x[0] of the one-element zip), arrays through _no_record.  The "
    "single-traversal wrapper awkward_transform binds array arguments back in positional order, passes "
    "non-arrays through, and is disabled (__awkward_transform_allowed__ = False) exactly on the table entries "
    "that return an input or a constant unchanged.  The behavior table maps every record name to its Array and "
    "Record classes.  Not decided: that ak.zip / ak.transform / ak.broadcast_arrays themselves preserve list "
    "structure, option positions and nesting (library semantics)."
)


def run(ctx):
    W = World(ctx.repo)
    L = link(ctx.repo)
    ctx.rule("C18.carried-fields", "fields carried by _wrap_result = non-coordinate fields + stored higher-group coordinates (own names) when num_vecargs == 1, nothing when 2; replaced/projected coordinates dropped in every spelling")
    ctx.rule("C18.zip-options", "ak.zip gets depth_limit=first.layout.purelist_depth, behavior=None if registered else first.behavior, with_name=_class_to_name(projection class)")
    ctx.rule("C18.record-path", "non-array results are wrapped into one-element arrays and the zipped result is unwrapped with [0] (_yes_record); arrays are returned as zipped (_no_record)")
    ctx.rule("C18.transform-flag", "__awkward_transform_allowed__ is False exactly on entries that return an operand coordinate or a constant unchanged")
    ctx.rule("C18.transform-binding", "awkward_transform keeps positional order: placeholders for array-like arguments, other arguments bound in place, ak.transform over the arrays in order")
    ctx.rule("C18.behavior-classes", "behavior['*', name] and behavior[name] are the Array and Record classes of that name, for the six record names")

    shapes = [s for s in wr.returns_shapes() if s not in (["float"], ["bool"])]
    fsets = [f for f in awkward_field_sets() if f[0] in ("x", "pt") or f[:2] == ["px", "py"]]
    n = 0
    for f in fsets:
        fields = f + ["charge", "q2"]
        mom = any(x in wr.COORD_NAMES.get("", ()) for x in ()) or any(x in ("px", "py", "pt", "pz", "E", "e", "energy", "M", "m", "mass") for x in f)
        cn = "MomentumArray4D" if mom else "VectorArray4D"
        dsf = len(f)
        for R in shapes:
            for nv in (1, 2):
                nR = len([r for r in R if r is not None])
                if nv == 2 and nR < dsf - 1 and len(R) == nR:
                    continue
                got = wr.summarize_awkward(W, fields, R, nv, cn)
                exp = awkward_spec(fields, R, nv, mom)
                n += 1
                name = f"fields={','.join(fields)}; returns={[str(r).replace('Azimuthal', 'Az').replace('Longitudinal', 'L').replace('Temporal', 'T') for r in R]}; num_vecargs={nv}"
                ok = got[0] == "vector" and sorted(got[3]) == sorted(exp[3]) and got[2] == exp[2]
                ctx.ob("C18.carried-fields", name, ok, f"carried {sorted(got[3]) if got[0] == 'vector' else got}, expected {sorted(exp[3])}", None,
                       "src/vector/backends/awkward.py", sample={"carried": [k for k, _ in exp[3]]})
                if got[0] == "vector":
                    meta = got[4]
                    okm = meta["with_name"] == exp[1] and meta["depth_limit"] is not None and "purelist_depth" in meta["depth_limit"] \
                        and "result[0]" in meta["depth_limit"] and meta["behavior"] is not None and "result[0]" in meta["behavior"] and "behavior" in meta["behavior"]
                    ctx.ob("C18.zip-options", name, okm, f"zip options {meta}, expected with_name={exp[1]}, depth_limit/behavior from the first result column", None,
                           "src/vector/backends/awkward.py")
    ctx.anchor("carried-field cases", n, 1000)
    # registered mode: behavior None
    env = W.module_env("vector")
    saved = env.get("_awkward_registered")
    env["_awkward_registered"] = True
    try:
        got = wr.summarize_awkward(W, ["x", "y", "charge"], ["AzimuthalXY"], 1, "VectorArray4D")
        ctx.ob("C18.zip-options", "registered mode", got[0] == "vector" and got[4]["behavior"] is None, f"behavior={got[4]['behavior'] if got[0] == 'vector' else got}", None, "src/vector/backends/awkward.py")
    finally:
        env["_awkward_registered"] = saved

    # ---- record path ------------------------------------------------------------------------
    fn, cv = W.find_method("VectorArray4D", "_wrap_result")
    for kind, label in (("akrecord", "records"), ("real", "python scalars"), ("akarray", "arrays")):
        zips = []
        models = {
            "awkward.fields": lambda I, a, k: ["x", "y", "z", "charge"],
            "awkward.zip": lambda I, a, k: (zips.append((a, k)) or Opaque(("zipped",), "akarray")),
            "awkward.broadcast_arrays": lambda I, a, k: list(a),
            "awkward.Array": lambda I, a, k: Opaque(("akArray", repr(a)[:60]), "akarray"),
        }
        I = Interp(W, ext_models=models)
        self = Inst(W.classes["VectorRecord4D" if kind != "akarray" else "VectorArray4D"], {"__name__": "self"}, origin="abstract")
        res = tuple(Opaque(f"r{i}", kind) for i in range(3))
        R = [W.classes["AzimuthalXY"], W.classes["LongitudinalZ"]]
        try:
            out = I.call_function(FuncVal(fn, cv.module, bound=self, owner=cv), [W.classes["VectorArray4D"], res, R, 1], {})
            if kind == "akarray":
                ok = isinstance(out, Opaque) and out.tag == ("zipped",)
                msg = f"returns {out!r}, expected the zipped array itself"
            else:
                ok = isinstance(out, Opaque) and isinstance(out.tag, tuple) and out.tag[0] == "item" and out.tag[1] == ("zipped",) and out.tag[2] == 0
                d = zips[0][0][0] if zips else {}
                ok = ok and all(isinstance(v, Opaque) and isinstance(v.tag, tuple) and v.tag[0] == "akArray" for k, v in d.items() if k in ("x", "y", "z"))
                msg = f"returns {out!r} from columns {d!r}; expected zipped[0] of one-element arrays"
        except (PyRaise, Undecided) as e:
            ok, msg = False, f"{type(e).__name__}: {e}"
        ctx.ob("C18.record-path", f"_wrap_result on {label}", ok, msg, None, "src/vector/backends/awkward.py")

    # ---- transform flag -----------------------------------------------------------------------
    inl = ir.Inliner()
    nflag = 0
    seen = set()
    for e in all_entries(L):
        if e.fn in seen:
            continue
        seen.add(e.fn)
        flag = getattr(e.fn, "__awkward_transform_allowed__", True)
        node = inl.inline(e.fn, e.args())
        outs = ir.outputs(node)
        coord_names = set(e.coord_names())
        passthrough = any(o.kind == "const" for o in outs) or (len(outs) == 1 and outs[0].kind == "param" and outs[0].a[0] in coord_names)
        if not flag:
            nflag += 1
        if passthrough or not flag:
            ctx.ob("C18.transform-flag", e.name, passthrough == (not flag),
                   f"returns {[ir.show(o)[:40] for o in outs]} with __awkward_transform_allowed__={flag}: "
                   + ("a pass-through/constant result must bypass ak.transform" if passthrough else "only pass-through entries may bypass the single-traversal wrapper"),
                   None, fn_where(e.fn), sample={"entry": e.name, "flag": flag})
    ctx.anchor("entries with the transform flag off", nflag, 23)

    # ---- transform binding -----------------------------------------------------------------------
    af = facts("src/vector/backends/awkward.py", ctx.repo)
    b = af.method("bind", "__call__")
    bsrc = unparse(b) if b is not None else ""
    ok = "args = tuple((next(iargs) if arg is _placeholder else arg for arg in self.args))" in bsrc and "return self.func(*args, *iargs, **keywords)" in bsrc
    ctx.ob("C18.transform-binding", "bind.__call__", ok, "placeholders must be filled from the call arguments in order", None, "src/vector/backends/awkward.py")
    t = af.method("awkward_transform", "__call__")
    tsrc = unparse(t) if t is not None else ""
    # statements moved into private module-level helpers called from __call__ are read there (one level)
    if t is not None:
        for c_ in ast.walk(t):
            if isinstance(c_, ast.Call) and isinstance(c_.func, ast.Name) and c_.func.id in af.functions:
                tsrc += "\n" + unparse(af.functions[c_.func.id])
    need = ["for arg in args:", "awkward_arrays.append(arg)", "args2bind.append(_placeholder)", "args2bind.append(arg)",
            "bind(self.func, *args2bind)(*map(operator.attrgetter('data'), layouts))", "return ak.transform(transformer, *awkward_arrays)",
            "if not getattr(self.func, '__awkward_transform_allowed__', True):"]
    missing = [x for x in need if x not in tsrc]
    ctx.ob("C18.transform-binding", "awkward_transform.__call__", not missing, f"expected constructs missing: {missing}", None, "src/vector/backends/awkward.py")
    wd = af.method("VectorAwkward", "_wrap_dispatched_function")
    ctx.ob("C18.transform-binding", "VectorAwkward._wrap_dispatched_function", wd is not None and unparse(wd.body[-1]) == "return awkward_transform(func)",
           "must wrap the compute function with awkward_transform", None, "src/vector/backends/awkward.py")

    # ---- behavior classes ---------------------------------------------------------------------------
    tab = extract_awkward_behaviors(ctx.repo)
    for name in AWK_NAMES:
        fl, d = name[:-2], name[-2:]
        a = tab.get(("'*'", repr(name)))
        r = tab.get((repr(name),))
        ctx.ob("C18.behavior-classes", f"behavior['*', {name!r}]", a is not None and a[1] == f"{fl}Array{d}", f"is {a[1] if a else None}", None, "src/vector/backends/awkward.py")
        ctx.ob("C18.behavior-classes", f"behavior[{name!r}]", r is not None and r[1] == f"{fl}Record{d}", f"is {r[1] if r else None}", None, "src/vector/backends/awkward.py")
    ctx.decline("ak.zip / ak.transform / ak.broadcast_arrays preserving list structure, option positions and nesting (library semantics)")
    ctx.decline("selecting a record from an array behaving like the equivalent object: value agreement is C03; record class lookup is Awkward's behavior mechanism")
