"""C19 — NumPy vector arrays behave as arrays of vectors (structural clauses)."""
from __future__ import annotations

import ast
import itertools

from ..core import AnalysisError
from ..loader import facts, unparse
from ..peval import ClassVal, External, FuncVal, Inst, Interp, Opaque, PyRaise, Undecided, World
from ..wrappers import AZS, COORD_NAMES, LOS, TES
from .c06 import finalize

LEVEL = "other"
EXPLANATION = (
    "Decided by abstract interpretation of the syntax trees: (1) integer indexing: _getitem on a numpy.void element "
    "is interpreted for every stored coordinate system (2 + 6 + 12) and both flavors; it returns array.ObjectClass "
    "- the object class of the same dimension and flavor - whose azimuthal/longitudinal/temporal objects are the "
    "ObjectClass of the array's coordinate types built from out[name] for the names of that type in table order; "
    "non-void results (slices, masks) are returned as NumPy produced them; (2) the ObjectClass links of the 6 vector "
    "and 7 coordinate classes pair equal dimension/flavor/coordinate kind; (3) __array_finalize__ of the six classes "
    "derives _azimuthal_type/_longitudinal_type/_temporal_type from the dtype names with XY before RhoPhi, Z before "
    "Theta before Eta, T before Tau, and raises TypeError when a group is missing (every valid and every "
    "one-group-missing name set); (4) VectorObject*D.__array__ / MomentumObject*D.__array__ build the NumPy class "
    "of the same dimension and flavor from the concatenated elements with the generic dtype names in table "
    "order; (5) __reduce__/__setstate__ append the instance dict as the last state item and "
    "restore it from there.  String indexing is decided under C14.  Not decided: what slicing, masking, reshaping, "
    "view, asarray and pickling do inside NumPy."
)

G2M = {"x": "px", "y": "py", "rho": "pt", "z": "pz", "t": "E", "tau": "mass"}


def run(ctx):
    W = World(ctx.repo)
    ctx.rule("C19.element", "_getitem on an element builds array.ObjectClass from ObjectClass coordinate objects filled with out[name] in table order")
    ctx.rule("C19.non-element", "_getitem returns non-void results of numpy.ndarray.__getitem__ unchanged")
    ctx.rule("C19.object-class", "ObjectClass of every NumPy vector class is the object class of the same dimension and flavor")
    ctx.rule("C19.finalize", "__array_finalize__ derives the coordinate types from dtype names with the documented precedence, TypeError when a group is missing")
    ctx.rule("C19.array-protocol", "<Flavor>Object<N>D.__array__ returns <Flavor>Numpy<N>D(concatenated elements, dtype=[(name, float64) in table order])")
    ctx.rule("C19.pickle", "__reduce__ appends self.__dict__ to the ndarray state and __setstate__ restores it from the last item, passing the rest on")

    I0 = Interp(W)
    getitem = W.lookup_global("vector.backends.numpy", "_getitem", I0)
    n = 0
    for dim in (2, 3, 4):
        for combo in itertools.product(AZS, *([LOS] if dim >= 3 else []), *([TES] if dim >= 4 else [])):
            for flavor in ("Vector", "Momentum"):
                n += 1
                cname = f"{flavor}Numpy{dim}D"
                arr = Inst(W.classes[cname], {"__name__": "array", "__closed__": True}, origin="abstract")
                for grp, gc in zip(("azimuthal", "longitudinal", "temporal"), combo):
                    ncls = W.classes[gc.replace("Azimuthal", "AzimuthalNumpy").replace("Longitudinal", "LongitudinalNumpy").replace("Temporal", "TemporalNumpy")]
                    arr.attrs[f"_{grp}_type"] = ncls
                    arr.attrs[grp] = Inst(ncls, {}, origin="abstract")
                models = {"numpy.ndarray.__getitem__": lambda I, a, k: Opaque("out", "npvoid")}
                I = Interp(W, ext_models=models)
                label = f"{cname}[{'/'.join(c.replace('Azimuthal', '').replace('Longitudinal', '').replace('Temporal', '') for c in combo)}]"
                try:
                    r = I.call_function(getitem, [arr, Opaque("i", "int"), flavor == "Momentum"], {})
                except (PyRaise, Undecided) as e:
                    ctx.ob("C19.element", label, False, f"{type(e).__name__}: {e}", None, "src/vector/backends/numpy.py")
                    continue
                want_cls = f"{flavor}Object{dim}D"
                ok = isinstance(r, Inst) and r.cls.name == want_cls
                msg = f"returns {r!r}, expected a {want_cls}"
                if ok:
                    for grp, gc in zip(("azimuthal", "longitudinal", "temporal"), combo):
                        c = r.attrs.get(grp)
                        wc = gc.replace("Azimuthal", "AzimuthalObject").replace("Longitudinal", "LongitudinalObject").replace("Temporal", "TemporalObject")
                        if not isinstance(c, Inst) or c.cls.name != wc:
                            ok, msg = False, f"{grp} is {c!r}, expected {wc}"
                            break
                        for f in COORD_NAMES[gc]:
                            v = c.attrs.get(f)
                            if not (isinstance(v, Opaque) and v.tag == ("item", "out", f)):
                                ok, msg = False, f"{grp}.{f} is {v!r}, expected out[{f!r}]"
                                break
                        if not ok:
                            break
                ctx.ob("C19.element", label, ok, msg, None, "src/vector/backends/numpy.py", sample={"array": label, "object": want_cls})
    ctx.anchor("element cases", n, 40)
    arr = Inst(W.classes["VectorNumpy3D"], {"__name__": "array"}, origin="abstract")
    I = Interp(W, ext_models={"numpy.ndarray.__getitem__": lambda I, a, k: Opaque("sliced", "ndarray")})
    r = I.call_function(getitem, [arr, Opaque("where", "slice"), False], {})
    ctx.ob("C19.non-element", "_getitem[slice]", isinstance(r, Opaque) and r.tag == "sliced", f"returns {r!r}", None, "src/vector/backends/numpy.py")

    for dim in (2, 3, 4):
        for flavor in ("Vector", "Momentum"):
            cname = f"{flavor}Numpy{dim}D"
            oc = W.class_attr(cname, "ObjectClass")
            want = f"vector.backends.object.{flavor}Object{dim}D"
            ctx.ob("C19.object-class", f"{cname}.ObjectClass", oc is not None and unparse(oc[0]) == want, f"is {unparse(oc[0]) if oc else None}, expected {want}", None, "src/vector/backends/numpy.py")

    # ---- finalize precedence ---------------------------------------------------------------------
    azn = {"AzimuthalXY": ("x", "y"), "AzimuthalRhoPhi": ("rho", "phi")}
    for dim in (2, 3, 4):
        for flavor in ("Vector", "Momentum"):
            cname = f"{flavor}Numpy{dim}D"
            # all names present: precedence
            names = ["x", "y", "rho", "phi", "z", "theta", "eta", "t", "tau", "extra"]
            res = finalize(W, cname, names)
            want = {"_azimuthal_type": "AzimuthalNumpyXY"}
            if dim >= 3:
                want["_longitudinal_type"] = "LongitudinalNumpyZ"
            if dim >= 4:
                want["_temporal_type"] = "TemporalNumpyT"
            ctx.ob("C19.finalize", f"{cname}[all names]", res[0] == "ok" and res[1] == want, f"{res[1:] if res[0] == 'ok' else res}; expected {want}", None, "src/vector/backends/numpy.py")
            for drop, names2, w2 in (
                ("x", ["y", "rho", "phi", "z", "theta", "eta", "t", "tau"], "AzimuthalNumpyRhoPhi"),
            ):
                res = finalize(W, cname, names2)
                ctx.ob("C19.finalize", f"{cname}[without {drop}]", res[0] == "ok" and res[1].get("_azimuthal_type") == w2, f"{res}", None, "src/vector/backends/numpy.py")
            if dim >= 3:
                res = finalize(W, cname, ["x", "y", "theta", "eta", "t", "tau"])
                ctx.ob("C19.finalize", f"{cname}[theta and eta]", res[0] == "ok" and res[1].get("_longitudinal_type") == "LongitudinalNumpyTheta", f"{res}", None, "src/vector/backends/numpy.py")
                res = finalize(W, cname, ["x", "y", "t", "tau"])
                ctx.ob("C19.finalize", f"{cname}[no longitudinal]", res[0] == "raise" and res[1] == "TypeError", f"{res}", None, "src/vector/backends/numpy.py")
            if dim >= 4:
                res = finalize(W, cname, ["x", "y", "z", "tau"])
                ctx.ob("C19.finalize", f"{cname}[tau only]", res[0] == "ok" and res[1].get("_temporal_type") == "TemporalNumpyTau", f"{res}", None, "src/vector/backends/numpy.py")
                res = finalize(W, cname, ["x", "y", "z"])
                ctx.ob("C19.finalize", f"{cname}[no temporal]", res[0] == "raise" and res[1] == "TypeError", f"{res}", None, "src/vector/backends/numpy.py")
            res = finalize(W, cname, ["x", "phi", "z", "t"])
            ctx.ob("C19.finalize", f"{cname}[no azimuthal pair]", res[0] == "raise" and res[1] == "TypeError", f"{res}", None, "src/vector/backends/numpy.py")

    # ---- __array__ ------------------------------------------------------------------------------------
    for dim in (2, 3, 4):
        for combo in itertools.product(AZS, *([LOS] if dim >= 3 else []), *([TES] if dim >= 4 else [])):
            for flavor in ("Vector", "Momentum"):
                cname = f"{flavor}Object{dim}D"
                self = Inst(W.classes[cname], {"__name__": "self"}, origin="abstract")
                elems = []
                names = []
                for grp, gc in zip(("azimuthal", "longitudinal", "temporal"), combo):
                    oc = W.classes[gc.replace("Azimuthal", "AzimuthalObject").replace("Longitudinal", "LongitudinalObject").replace("Temporal", "TemporalObject")]
                    c = Inst(oc, {}, origin="constructed")
                    for f in COORD_NAMES[gc]:
                        c.attrs[f] = Opaque(f"self.{f}", "real")
                        elems.append(f"self.{f}")
                        names.append(f)  # generic field names for both flavors (MomentumNumpy stores generic names)
                    self.attrs[grp] = c
                fn, cv = W.find_method(cname, "__array__")
                I = Interp(W)
                label = f"{cname}.__array__[{'/'.join(c.replace('Azimuthal', '').replace('Longitudinal', '').replace('Temporal', '') for c in combo)}]"
                try:
                    r = I.call_function(FuncVal(fn, cv.module, bound=self, owner=cv), [], {})
                except (PyRaise, Undecided) as e:
                    ctx.ob("C19.array-protocol", label, False, f"{type(e).__name__}: {e}", None, "src/vector/backends/object.py")
                    continue
                want_cls = f"{flavor}Numpy{dim}D"
                ok = isinstance(r, Inst) and r.cls.name == want_cls and "__new_args__" in r.attrs
                msg = f"returns {r!r}"
                if ok:
                    args, kw = r.attrs["__new_args__"]
                    got_el = [str(v.tag) for v in args[0]] if args and isinstance(args[0], tuple) else None
                    dt = kw.get("dtype")
                    got_names = [d[0] for d in dt] if isinstance(dt, list) else None
                    all_f64 = isinstance(dt, list) and all(isinstance(d[1], External) and d[1].name == "numpy.float64" for d in dt)
                    ok = got_el == elems and got_names == names and all_f64
                    msg = f"{want_cls}({got_el}, dtype names {got_names}); expected ({elems}, {names})"
                ctx.ob("C19.array-protocol", label, ok, msg, None, "src/vector/backends/object.py")

    # ---- pickle ----------------------------------------------------------------------------------------------
    nf = facts("src/vector/backends/numpy.py", ctx.repo)
    red = nf.method("VectorNumpy", "__reduce__")
    sst = nf.method("VectorNumpy", "__setstate__")
    rb = [unparse(s) for s in red.body] if red else []
    sb = [unparse(s) for s in sst.body] if sst else []
    ctx.ob("C19.pickle", "VectorNumpy.__reduce__", rb == ["pickled_state = super().__reduce__()", "new_state = (*pickled_state[2], self.__dict__)", "return (pickled_state[0], pickled_state[1], new_state)"],
           f"body {rb}", None, "src/vector/backends/numpy.py")
    ctx.ob("C19.pickle", "VectorNumpy.__setstate__", sb == ["self.__dict__.update(state[-1])", "super().__setstate__(state[0:-1])"], f"body {sb}", None, "src/vector/backends/numpy.py")
    ctx.decline("what slicing, boolean masks, reshape, view, asarray/asanyarray and pickle do inside NumPy (array class and dtype propagation)")
    ctx.decline("indexing by coordinate name / synonym: decided under C14")
