"""C20 — operations leave no trace in global state and are thread-deterministic (who-may-write and pairing rules)."""
from __future__ import annotations

import ast
import json

from .. import effects
from ..core import VERIF, AnalysisError
from ..dispatchers import dispatch_summary
from ..loader import all_source_files, facts, link, parse_file, rel, unparse
from .c16 import allowed, load_allow

LEVEL = "other"
EXPLANATION = (
    "Who-may-write and pairing rules over the whole package (syntax trees, nothing executed).  (1) Each of the "
    "82 dispatch() functions evaluates handler selection, the compute call and the wrapping inside a single "
    "`with numpy.errstate(all=\"ignore\")` block - the context-manager form restores the floating-point error "
    "state on normal and exceptional exit - and contains no other statement after the table lookup.  (2) Nowhere "
    "in src/vector is process-wide state set outside such a context manager: numpy.seterr/seterrcall/"
    "set_printoptions/setbufsize, warnings.filterwarnings/simplefilter/resetwarnings, sys.set*, os.environ/"
    "putenv/chdir, locale.setlocale, random/numpy.random seeding; numpy.errstate, numpy.printoptions and "
    "warnings.catch_warnings appear only as `with` items.  (3) awkward.behavior is written only by "
    "register_awkward (through the idempotent dict.update) and _awkward_registered only there; Numba registries "
    "are touched only at import of the _numba* modules, which register_numba merely imports.  (4) No function body "
    "stores into a module-level or class-level object (global/nonlocal names, Module.attr, Class.attr, mutation of "
    "module-level containers) except the enumerated registration sites; no function is memoised with a module-"
    "level cache.  (5) The Awkward constructors copy a behavior dict before updating it.  Thread determinism is "
    "argued from (2)-(4) and C16: every public operation is a function of its arguments and of the thread-local "
    "errstate.  Not decided: interleavings themselves; NumPy/Awkward internals."
)

FORBIDDEN_CALLS = {
    "numpy.seterr", "numpy.seterrcall", "numpy.set_printoptions", "numpy.setbufsize", "numpy.random.seed", "random.seed",
    "warnings.filterwarnings", "warnings.simplefilter", "warnings.resetwarnings", "sys.setrecursionlimit", "sys.settrace",
    "sys.setprofile", "sys.setswitchinterval", "os.putenv", "os.unsetenv", "os.chdir", "locale.setlocale", "importlib.reload",
    "numpy.set_string_function", "awkward.behavior.clear", "ak.behavior.clear", "awkward.behavior.pop", "ak.behavior.pop",
}
CONTEXT_ONLY = {"numpy.errstate", "numpy.printoptions", "warnings.catch_warnings", "contextlib.suppress"}
CACHE_DECORATORS = {"functools.lru_cache", "functools.cache", "lru_cache", "cache", "functools.cached_property"}


def run(ctx):
    L = link(ctx.repo)
    allow = load_allow()
    ctx.rule("C20.errstate-paired", "dispatch() = table lookup, then exactly one `with numpy.errstate(all=\"ignore\")` block holding handler selection, compute call and wrapping")
    ctx.rule("C20.no-global-setters", "no call that sets process-wide state (seterr, warnings filters, print options, sys.set*, environment, locale, seeds); state-changing context managers appear only as `with` items")
    ctx.rule("C20.registry-writers", "awkward.behavior / ak.behavior and _awkward_registered are written only in register_awkward (dict.update + flag); register_numba only imports")
    ctx.rule("C20.no-global-store", "no function body stores into a module-level or class-level object outside the enumerated registration sites")
    ctx.rule("C20.no-module-cache", "no function is memoised with a module-level cache (lru_cache/cache) and no module-level mutable container is mutated by a function")
    ctx.rule("C20.behavior-copied", "awkward constructors copy a behavior dict (dict(...)) before updating or attaching vector behaviors")

    # (1) errstate pairing
    for mn, mod in L.mods.items():
        d = dispatch_summary(mod)
        short = L.short(mn)
        ok = not d.problems and d.in_errstate and d.errstate_args == "all='ignore'" and not d.statements_outside_with
        ctx.ob("C20.errstate-paired", short, ok,
               f"problems={d.problems}, errstate({d.errstate_args}), statements outside the with-block: {d.statements_outside_with}", None,
               f"{short}.dispatch line {d.line}", sample={"module": short, "errstate": d.errstate_args})
    ctx.anchor("dispatch functions", len(L.mods), 82)

    # (2) forbidden calls / context managers
    ncalls = 0
    for path in all_source_files(ctx.repo):
        r = rel(path, ctx.repo)
        tree = parse_file(path)
        with_items = set()
        for node in ast.walk(tree):
            if isinstance(node, (ast.With, ast.AsyncWith)):
                for it in node.items:
                    with_items.add(id(it.context_expr))
        for node in ast.walk(tree):
            if isinstance(node, ast.Call):
                fn = unparse(node.func)
                ncalls += 1
                if fn in FORBIDDEN_CALLS:
                    ctx.ob("C20.no-global-setters", f"{r}:{node.lineno} {fn}", False, f"call to {fn} sets process-wide state", None, f"{r}:{node.lineno}")
                elif fn in CONTEXT_ONLY:
                    ctx.ob("C20.no-global-setters", f"{r}:{node.lineno} {fn}", id(node) in with_items,
                           f"{fn}(...) used outside a with statement: its effect is not paired with a restore", None, f"{r}:{node.lineno}")
            if isinstance(node, (ast.Assign, ast.AugAssign, ast.Delete)):
                targets = node.targets if isinstance(node, (ast.Assign, ast.Delete)) else [node.target]
                for t in targets:
                    s = unparse(t)
                    if s.startswith("os.environ") or s.startswith("sys.flags") or s.startswith("numpy.core") or s.startswith("warnings.filters"):
                        ctx.ob("C20.no-global-setters", f"{r}:{node.lineno} {s}", False, f"store into {s}", None, f"{r}:{node.lineno}")
    ctx.anchor("call sites scanned", ncalls, 3000)
    # make the rule non-vacuous: the 82 errstate uses are instances of the context-only rule
    ctx.anchor("context-manager instances", ctx.rule_counts["C20.no-global-setters"][0], 82)

    # (3)+(4) global stores
    stores = effects.analyse_repo(ctx.repo)
    for s in stores:
        if s.func == "<module>":
            # import-time: only the module's own tables/classes may be written
            if s.cls == "global" and s.kind == "mutcall" and ("awkward.behavior" in s.target or "ak.behavior" in s.target):
                ctx.ob("C20.registry-writers", f"{s.file}::<module>::{s.target}", False, "global Awkward behavior registry mutated at import", s.as_dict(), f"{s.file}:{s.line}")
            continue
        if s.cls == "global" or s.kind == "global-name":
            a = allowed(s, allow)
            is_registry = "behavior" in s.target or "_awkward_registered" in s.target
            if is_registry:
                ok = s.file == "src/vector/__init__.py" and s.func == "register_awkward" and (s.target in ("awkward.behavior.update", "_awkward_registered"))
                ctx.ob("C20.registry-writers", f"{s.file}::{s.func}::{s.target}", ok,
                       "Awkward behavior registry / registration flag written outside register_awkward or not through dict.update", s.as_dict(), f"{s.file}:{s.line}",
                       sample=s.as_dict())
            else:
                ctx.ob("C20.no-global-store", f"{s.file}::{s.func}::{s.target}", a is not None,
                       f"{s.kind} store into module/class-level object `{s.target}` from inside a function", s.as_dict(), f"{s.file}:{s.line}",
                       sample=s.as_dict())
    init = facts("src/vector/__init__.py", ctx.repo)
    rn = init.functions.get("register_numba")
    body = [st for st in rn.body if not (isinstance(st, ast.Expr) and isinstance(st.value, ast.Constant))] if rn else None
    ctx.ob("C20.registry-writers", "register_numba", rn is not None and all(isinstance(st, ast.Import) for st in body),
           "register_numba must only import the numba modules", None, "src/vector/__init__.py")
    ra = init.functions.get("register_awkward")
    if ra is None:
        raise AnalysisError("anchor register_awkward missing")
    upd_calls = [n for n in ast.walk(ra) if isinstance(n, ast.Call) and unparse(n.func).endswith("behavior.update")]
    local = {}
    for st in ra.body:
        if isinstance(st, ast.Assign) and len(st.targets) == 1 and isinstance(st.targets[0], ast.Name):
            local.setdefault(st.targets[0].id, []).append(unparse(st.value))

    def _resolved(a):
        t = unparse(a)
        if isinstance(a, ast.Name) and len(local.get(a.id, [])) == 1:
            t = local[a.id][0]
        return t

    upd = [(unparse(n.func), [_resolved(a) for a in n.args], [k.arg for k in n.keywords]) for n in upd_calls]
    ctx.ob("C20.registry-writers", "register_awkward", upd == [("awkward.behavior.update", ["vector.backends.awkward.behavior"], [])],
           f"register_awkward updates: {upd}; expected one awkward.behavior.update(vector.backends.awkward.behavior)", None, "src/vector/__init__.py")

    # ordering (typestate): the flag is raised only after the registry update has returned, on every path
    ctx.rule("C20.register-order", "in register_awkward the store `_awkward_registered = True` is a top-level statement that follows the top-level `awkward.behavior.update(...)` statement "
                                  "(not inside a try/finally or a branch): if the update raises, or while it runs in another thread, the flag still says 'not registered'")
    top = [st for st in ra.body if not (isinstance(st, ast.Expr) and isinstance(st.value, ast.Constant))]
    i_upd = [i for i, st in enumerate(top) if isinstance(st, ast.Expr) and isinstance(st.value, ast.Call) and unparse(st.value.func).endswith("behavior.update")]
    i_flag = [i for i, st in enumerate(top) if isinstance(st, ast.Assign) and any(isinstance(t, ast.Name) and t.id == "_awkward_registered" for t in st.targets)]
    n_flag_all = sum(1 for n in ast.walk(ra) if isinstance(n, (ast.Assign, ast.AugAssign, ast.AnnAssign)) and "_awkward_registered" in unparse(n).split("=")[0])
    ok = len(i_upd) == 1 and len(i_flag) == 1 and n_flag_all == 1 and i_upd[0] < i_flag[0]
    ctx.ob("C20.register-order", "register_awkward", ok,
           f"top-level statement order: behavior.update at {i_upd}, flag store at {i_flag} ({n_flag_all} flag stores in the function)", None,
           f"src/vector/__init__.py:{ra.lineno}")

    # (4b) caches
    ndef = 0
    for path in all_source_files(ctx.repo):
        r = rel(path, ctx.repo)
        for node in ast.walk(parse_file(path)):
            if isinstance(node, (ast.FunctionDef, ast.AsyncFunctionDef)):
                ndef += 1
                for dname in (unparse(x).split("(")[0] for x in node.decorator_list):
                    if dname in CACHE_DECORATORS:
                        ctx.ob("C20.no-module-cache", f"{r}::{node.name}", False, f"memoised with {dname}: results would depend on call history shared across threads", None, f"{r}:{node.lineno}")
    c = ctx.rule_counts.setdefault("C20.no-module-cache", [0, 0])
    c[0] += ndef
    c[1] += ndef
    ctx.constructs.add(f"C20.no-module-cache::<{ndef} function definitions>")
    ctx.anchor("function definitions scanned", ndef, 1500)

    # (5) behavior copied
    cf = facts("src/vector/backends/awkward_constructors.py", ctx.repo)
    z = cf.functions.get("zip")
    A = cf.functions.get("Array")
    if z is None or A is None:
        raise AnalysisError("anchor awkward_constructors.zip/Array missing")
    zsrc = unparse(z)
    ctx.ob("C20.behavior-copied", "awkward_constructors.zip", "behavior = dict(vector.backends.awkward.behavior)" in zsrc and "vector.backends.awkward.behavior.update" not in zsrc,
           "zip must attach a copy of the vector behavior dict", None, "src/vector/backends/awkward_constructors.py")
    # Array (and the private helpers it calls, one level): every `<v>.behavior.update(...)` is preceded, in the same function, by `<v>.behavior = dict(<v>.behavior)`
    fns_ = [A] + [cf.functions[c_.func.id] for c_ in ast.walk(A) if isinstance(c_, ast.Call) and isinstance(c_.func, ast.Name) and c_.func.id in cf.functions and c_.func.id != "Array"]
    ok, n_upd = True, 0
    for f_ in fns_:
        events = []
        for st_ in ast.walk(f_):
            if isinstance(st_, ast.Assign) and len(st_.targets) == 1 and isinstance(st_.targets[0], ast.Attribute) and st_.targets[0].attr == "behavior" \
                    and isinstance(st_.value, ast.Call) and unparse(st_.value.func) == "dict" and len(st_.value.args) == 1 and unparse(st_.value.args[0]) == unparse(st_.targets[0]):
                events.append((st_.lineno, st_.col_offset, "copy", unparse(st_.targets[0].value)))
            if isinstance(st_, ast.Call) and isinstance(st_.func, ast.Attribute) and st_.func.attr == "update" and isinstance(st_.func.value, ast.Attribute) and st_.func.value.attr == "behavior":
                events.append((st_.lineno, st_.col_offset, "update", unparse(st_.func.value.value)))
        copied = set()
        for _, _, kind_, v_ in sorted(events):
            if kind_ == "copy":
                copied.add(v_)
            else:
                n_upd += 1
                if v_ not in copied or v_.startswith("vector."):
                    ok = False
    ok = ok and n_upd >= 1
    ctx.ob("C20.behavior-copied", "awkward_constructors.Array", ok, "Array must copy an existing behavior dict before updating it", None, "src/vector/backends/awkward_constructors.py")
    af = facts("src/vector/backends/awkward.py", ctx.repo)
    wr_ = af.method("VectorAwkward", "_wrap_result")
    from ..loader import resolve_helper_expr
    beh = [unparse(resolve_helper_expr(k.value, af)) for n in ast.walk(wr_) if isinstance(n, ast.Call) for k in n.keywords if k.arg == "behavior"]
    ctx.ob("C20.behavior-copied", "VectorAwkward._wrap_result behavior=", len(beh) >= 5 and all(b == "None if vector._awkward_registered else first.behavior" for b in beh),
           f"behavior arguments: {sorted(set(beh))}", None, "src/vector/backends/awkward.py")
    ctx.decline("thread interleavings themselves (argued from purity: no global store, no cache, thread-local errstate); NumPy/Awkward internals; the import lock for lazy imports")
