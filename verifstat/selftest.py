"""E7 — checker self-test: seeded single-edit mutants must be reported (by the right rule), behaviour-preserving
edits must stay silent.  Each variant is a scratch copy of <repo>/src made under tempfile.mkdtemp and removed
afterwards; checks run with VERIF_REPO pointing at it and VERIF_NO_EVIDENCE=1.

usage: python -m verifstat selftest [--jobs N] [--prop Cnn]
"""
from __future__ import annotations

import json
import os
import shutil
import subprocess
import sys
import tempfile
from concurrent.futures import ThreadPoolExecutor
from pathlib import Path

from .core import VERIF, repo_root

CORPUS = VERIF / "selftest" / "corpus.json"


def _apply(root: Path, edits):
    for ed in edits:
        p = root / "src" / "vector" / ed["file"]
        s = p.read_text()
        if s.count(ed["old"]) < 1:
            return f"anchor text not found in {ed['file']}: {ed['old'][:60]!r}"
        s = s.replace(ed["old"], ed["new"], ed.get("count", 1))
        p.write_text(s)
    return None


def _run_variant(v, repo):
    d = Path(tempfile.mkdtemp(prefix="verifselftest."))
    try:
        (d / "src").mkdir()
        shutil.copytree(repo / "src" / "vector", d / "src" / "vector")
        err = _apply(d, v["edits"])
        if err:
            return v, "STALE", err
        env = dict(os.environ, VERIF_REPO=str(d), VERIF_NO_EVIDENCE="1", VERIF_OUT=str(d / "out"))
        out = {}
        for prop in v["props"]:
            r = subprocess.run([sys.executable, "-m", "verifstat", "check", prop], cwd=str(VERIF), env=env, capture_output=True, text=True)
            out[prop] = (r.returncode, r.stdout)
        return v, "RAN", out
    finally:
        shutil.rmtree(d, ignore_errors=True)


def run_for_prop(prop, jobs=16):
    """used by the thorough tier: (number of variants, list of problem descriptions) for one property"""
    corpus = json.loads(CORPUS.read_text())
    repo = repo_root()
    variants = [dict(v, kind="mutant", props=[v["expect"]["prop"]]) for v in corpus["mutants"] if v["expect"]["prop"] == prop]
    variants += [dict(v, kind="equivalent", props=[prop]) for v in corpus["equivalents"] if prop in v["props"]]
    problems = []
    results = []
    with ThreadPoolExecutor(max_workers=max(1, jobs)) as ex:
        for v, status, out in ex.map(lambda v: _run_variant(v, repo), variants):
            if status == "STALE":
                # the tree under analysis differs from the one the corpus was written for at this spot: not a checker defect
                results.append({"variant": v["id"], "kind": v["kind"], "skipped": "anchor text not present in this tree"})
                continue
            rc, text = out[prop]
            if v["kind"] == "mutant":
                hit = rc == 1 and any(v["expect"]["rule"] in line for line in text.splitlines() if line.startswith("  "))
                results.append({"variant": v["id"], "kind": "mutant", "caught": hit})
                if not hit:
                    problems.append(f"{v['id']}: seeded mutant not reported by {v['expect']['rule']} (exit {rc})")
            else:
                results.append({"variant": v["id"], "kind": "equivalent", "silent": rc == 0})
                if rc != 0:
                    problems.append(f"{v['id']}: behaviour-preserving edit raised an alarm (exit {rc})")
    return results, problems


def main(jobs=16, only_prop=None) -> int:
    corpus = json.loads(CORPUS.read_text())
    repo = repo_root()
    variants = []
    for v in corpus["mutants"]:
        v = dict(v, kind="mutant", props=[v["expect"]["prop"]])
        variants.append(v)
    for v in corpus["equivalents"]:
        variants.append(dict(v, kind="equivalent"))
    if only_prop:
        variants = [v for v in variants if only_prop in v["props"]]
    bad = 0
    with ThreadPoolExecutor(max_workers=max(1, jobs // 2)) as ex:
        for v, status, out in ex.map(lambda v: _run_variant(v, repo), variants):
            if status == "STALE":
                print(f"STALE   {v['id']}: {out}")
                bad += 1
                continue
            if v["kind"] == "mutant":
                prop = v["expect"]["prop"]
                rc, text = out[prop]
                hit = rc == 1 and any(v["expect"]["rule"] in line for line in text.splitlines() if line.startswith("  "))
                print(f"{'CAUGHT ' if hit else 'MISSED '} {v['id']} [{prop} {v['expect']['rule']}] rc={rc}")
                if not hit:
                    bad += 1
            else:
                noisy = [p for p, (rc, _) in out.items() if rc != 0]
                print(f"{'SILENT ' if not noisy else 'ALARM  '} {v['id']} {noisy or ''}")
                if noisy:
                    bad += 1
                    for p in noisy:
                        print("    " + "\n    ".join(out[p][1].splitlines()[-6:]))
    print(f"selftest: {len(variants)} variants, {bad} problems")
    return 1 if bad else 0
