"""Rules that several properties depend on.

A property's behaviour is often carried by code whose primary rule lives under another property (the boosts of C09 are
wrapped by the `_wrap_result` functions decided under C03; the flavor clause of C05 by the same wrappers; count_nonzero of
C17 by the accessor kernels' zero-vector conventions of C13 ...).  A change there breaks both properties, so the rule is
applied to both: `apply(ctx)` runs the listed rules of other checks on this property's context under this property's name
(see Ctx.include).  Each row says why the rule is a necessary condition of the property it is added to.
"""
from __future__ import annotations

import importlib
import re


def _mods(*pats):
    rx = re.compile("|".join(pats))
    return lambda rule, construct: bool(rx.search(construct))


BOOST = _mods(r"boost")
ROT = _mods(r"rotate")
CMP = _mods(r"\.(equal|not_equal|isclose)\b", r"\.(equal|not_equal|isclose)\[")
PRED = _mods(r"\.is_(parallel|antiparallel|perpendicular|timelike|lightlike|spacelike)")
ARITH = _mods(r"\.(add|subtract|scale)\b", r"\.(add|subtract|scale)\[")
ACCESS = _mods(r"(planar\.(x|y|rho|rho2|phi)|spatial\.(z|theta|eta|mag|mag2)|lorentz\.(t|t2|tau|tau2))\[")

# property -> [(source property module, {source rule: name here}, why, construct filter or None)]
SHARED = {
    "C01": [
        ("c07", {"C07.kernel-arguments": "C01.numba-kernel-arguments"}, "compiled code picks the variant by the operands' coordinate systems: the signature tuple and the coordinate arguments must pair each operand with its own system", None),
        ("c15", {"C15.replace-data": "C01.replace-data"}, "an in-place result is stored back in the accumulator's own coordinate system: the conversion must read the result's coordinates by name", None),
        ("c03", {"C03.value-preserving-fill": "C01.wrap-fill"}, "a constant result component (rho = 1 of a unit vector) must reach the array unchanged in every coordinate system", None),
    ],
    "C02": [
        ("c07", {"C07.kernel-arguments": "C02.numba-kernel-arguments", "C07.literal-order": "C02.numba-euler-order"}, "compiled code computes the documented definitions only if it feeds the kernels the interpreter's arguments (angle order of rotate_nautical, the Euler order)", None),
        ("c09", {"C09.method-forwarding": "C02.boost-forwarding"}, "an active boost by a 4D booster is a boost by its velocity p/E, by a 3D booster a boost by that velocity: boost() must tell them apart", None),
        ("c01", {"C01.base-agreement": "C02.native-variants", "C01.dispatch-args": "C02.dispatch-arguments", "C01.template": "C02.variants"},
         "a variant that does not denote its Cartesian kernel, or a dispatcher that feeds the kernel the wrong scalar, does not compute the documented definition", None),
        ("c10", {"C10.euler-composition": "C02.euler-convention", "C10.handedness": "C02.handedness", "C10.quaternion-equals-axis": "C02.quaternion-convention"},
         "the ROOT Euler-angle / quaternion conventions and handedness are part of the documented definitions", None),
        ("c14", {"C14.property": "C02.momentum-accessors"}, "the momentum-named accessors are documented as the geometric quantities", None),
    ],
    "C03": [
        ("c15", {"C15.replace-data": "C03.replace-data"}, "a sequence of in-place updates on an object must equal the same updates on the array element", None),
        ("c14", {"C14.awkward-fields": "C03.awkward-field-classes"}, "the Awkward backend must read each stored field as the coordinate the other backends read", None),
        ("c05", {"C05.counted-operands": "C03.result-handler"}, "element i of an array result exists only if the array operand's backend wraps the result", None),
        ("c18", {"C18.transform-binding": "C03.transform-binding"}, "Awkward operands reach the kernel through ak.transform: each must be bound to its own kernel parameter", None),
    ],
    "C04": [
        ("c03", {"C03.wrap-spec": "C04.wrap-spec", "C03.value-preserving-fill": "C04.value-preserving-fill", "C03.scalar-promotion": "C04.scalar-promotion", "C03.wrap-awkward": "C04.wrap-awkward"},
         "to_*() results are built by the backends' _wrap_result: retained coordinates bit-for-bit, the keyword value unchanged", None),
        ("c18", {"C18.transform-flag": "C04.identity-kernels-untransformed"}, "an identity accessor run through ak.transform no longer returns the stored column unchanged", None),
    ],
    "C05": [
        ("c01", {"C01.dispatch-wrap": "C05.dispatch-wrap"}, "the dimension of a result and the fields it keeps follow from what the dispatcher hands to _wrap_result (returns, num_vecargs)", None),
        ("c03", {"C03.wrap-spec": "C05.wrap-class", "C03.value-preserving-fill": "C05.wrap-promotion"}, "the result class (flavor, dimension) and whether a record or an array comes back are decided inside _wrap_result", None),
        ("c10", {"C10.euler-table": "C05.euler-table"}, "every method is defined for every coordinate system and every axis order", None),
        ("c18", {"C18.behavior-classes": "C05.behavior-classes"}, "the Awkward record/array class of a result is looked up in the behavior table", None),
    ],
    "C06": [
        ("c18", {"C18.behavior-classes": "C06.behavior-classes"}, "vector.zip / vector.Array results get their class (flavor) from the behavior table", None),
    ],
    "C07": [
        ("c06", {"C06.obj": "C07.obj-interpreter"}, "vector.obj inside numba.njit is typed by its own overload; the interpreter's vector.obj must build the documented vector for the two to agree", None),
        ("c01", {"C01.dispatch-args": "C07.interpreter-dispatch-arguments"}, "the Numba lowering has its own argument lists; the interpreter's dispatch() must feed the same kernel arguments", None),
    ],
    "C08": [
        ("c15", {"C15.replace-data": "C08.replace-data", "C15.inplace-operators": "C08.inplace-operators"}, "SymPy in-place updates must rebuild the same coordinates as the object backend", _mods(r"ympy")),
        ("c12", {"C12.isclose-shape": "C08.isclose-call-shape"}, "SympyLib.isclose takes (a, b, *args): the kernels' call shape is part of what SymPy can evaluate", None),
    ],
    "C09": [
        ("c07", {"C07.composite-overloads": "C09.numba-composites"}, "boost / boostCM_of* in compiled code are written in terms of boost_p4 / boost_beta3: they must forward what the interpreter forwards", BOOST),
        ("c01", {"C01.base-agreement": "C09.variants", "C01.dispatch-wrap": "C09.dispatch-wrap", "C01.result-representable": "C09.result-representable"},
         "the boost laws are proved on the Cartesian kernels; every other variant must denote them and be wrapped with the documented operands", BOOST),
        ("c07", {"C07.kernel-arguments": "C09.numba-kernel-arguments"}, "boosts inside numba.njit call the same kernels", BOOST),
        ("c03", {"C03.wrap-spec": "C09.wrap-spec"}, "a boosted array is assembled by _wrap_result (each result column with its own dtype, stored groups passed through)", None),
        ("c05", {"C05.dimension-guards": "C09.dimension-guards"}, "the boosts reject operands of the wrong dimension", BOOST),
    ],
    "C10": [
        ("c07", {"C07.literal-order": "C10.numba-euler-order"}, "rotate_euler with any of the 12 orders: compiled code must select the kernel of the order the caller wrote", None),
        ("c01", {"C01.base-agreement": "C10.variants", "C01.dispatch-wrap": "C10.dispatch-wrap"}, "rotation laws are proved on the Cartesian kernels; the dispatcher decides what wraps the result (time untouched)", ROT),
        ("c05", {"C05.counted-operands": "C10.counted-operands"}, "the axis of rotate_axis is a secondary argument: it must not choose the result's backend, flavor or dimension", ROT),
        ("c07", {"C07.kernel-arguments": "C10.numba-kernel-arguments"}, "rotations inside numba.njit call the same kernels", ROT),
        ("c03", {"C03.wrap-spec": "C10.wrap-spec"}, "a rotated array is assembled by _wrap_result; time / proper time are passed through there", None),
    ],
    "C11": [
        ("c15", {"C15.replace-data": "C11.replace-data"}, "the vector-space laws hold for += / -= / *= only if the in-place result is stored back completely", None),
        ("c03", {"C03.value-preserving-fill": "C11.wrap-fill"}, "unit() has norm one: the constant rho = 1 of the polar kernel must reach the array unchanged", None),
        ("c03", {"C03.wrap-spec": "C11.wrap-spec"}, "sums, differences and multiples of arrays are assembled by _wrap_result: each result column with its own dtype", None),
        ("c01", {"C01.result-representable": "C11.result-representable"}, "a - b + b == a needs the time component's sign: a tau-class result of a t-stored operand loses it", ARITH),
    ],
    "C12": [
        ("c07", {"C07.coord-binding": "C12.numba-coord-binding", "C07.kernel-arguments": "C12.numba-kernel-arguments"}, "== / != / isclose in compiled code compare each coordinate of one operand with the other operand's", _mods(r"add_isclose_method|add_binary_method")),
        ("c01", {"C01.dispatch-lookup": "C12.dispatch-lookup", "C01.dispatch-args": "C12.dispatch-args", "C01.template": "C12.variants"},
         "== / != / isclose look their variant up by both operands' systems", CMP),
        ("c17", {"C17.numpy-routing": "C12.numpy-function-routing"}, "numpy.isclose / numpy.allclose reach the methods through __array_function__ with the operands in order", None),
    ],
    "C13": [
        ("c07", {"C07.coord-binding": "C13.numba-coord-binding", "C07.kernel-arguments": "C13.numba-kernel-arguments"}, "the angle predicates in compiled code read each operand in its own coordinate system", _mods(r"add_tolerance_method")),
        ("c05", {"C05.defaults-agree": "C13.default-tolerance"}, "the predicates' default tolerances are the documented ones (the protocol signature)", PRED),
        ("c01", {"C01.template": "C13.variants", "C01.base-agreement": "C13.native-variants"}, "the predicate shapes are decided per variant on lifted symbols; each variant must compute those symbols from its own operands", PRED),
    ],
    "C14": [
        ("c07", {"C07.obj-agreement": "C14.numba-obj-synonyms"}, "constructing through a synonym inside compiled code must build what the interpreter builds for that spelling", None),
        ("c06", {"C06.obj": "C14.obj-synonyms"}, "vector.obj through any synonym builds the momentum-flavored vector with the value in the geometric slot", None),
        ("c05", {"C05.operators": "C14.operator-tables"}, "the flavor never changes a number: Momentum rows of the ufunc/behavior tables equal the Vector rows", None),
        ("c06", {"C06.check-names": "C14.constructor-synonyms"}, "constructing through a synonym stores the value under the geometric coordinate", None),
        ("c04", {"C04.to-system-momentum": "C14.momentum-conversions"}, "the to_pxpy... conversions equal their geometric counterparts, keyword for keyword", None),
    ],
    "C15": [
        ("c05", {"C05.same-dimension": "C15.same-dimension"}, "an in-place operator with an operand of another dimension must raise before anything is stored", None),
        ("c01", {"C01.result-representable": "C15.result-representable", "C01.base-agreement": "C15.kernels"}, "+= / -= / *= equal the functional add / subtract / scale, whose variants must be right for the in-place result to be", ARITH),
    ],
    "C16": [
        ("c15", {"C15.ufunc-out": "C16.ufunc-out"}, "numpy.<ufunc>(a, b, out=c) must fill c, not an input", None),
        ("c20", {"C20.behavior-copied": "C16.behavior-copied"}, "vector.Array(akarray) must not write into the behavior mapping of its argument", None),
    ],
    "C17": [
        ("c06", {"C06.columns": "C17.result-columns"}, "numpy sums are assembled from a dict of component sums: every field must get its own column's dtype", None),
        ("c14", {"C14.awkward-fields": "C17.awkward-fields"}, "ak.sum reads the operand's components through the field cascades of the Awkward coordinate classes", None),
        ("c13", {"C13.singular-points": "C17.zero-vector-conventions"}, "count_nonzero and sums of padded arrays rely on the accessors' values for the zero vector", ACCESS),
        ("c01", {"C01.template": "C17.accessor-variants", "C01.entry-name": "C17.accessor-table"}, "reducers read Cartesian components and t2 through the accessor tables", ACCESS),
    ],
    "C18": [
        ("c14", {"C14.awkward-fields": "C18.awkward-fields"}, "a record selected from an array behaves like the equivalent object only if each field is read as the coordinate it names", None),
        ("c06", {"C06.coordinate-dtypes": "C18.layouts-accepted"}, "vector.Array must accept option-typed and list-nested layouts to keep them through operations", _mods(r"^awkward\._is_type_safe")),
        ("c01", {"C01.dispatch-wrap": "C18.num-vecargs"}, "num_vecargs decides whether the Awkward wrapper carries the operand's extra fields", None),
        ("c05", {"C05.class-links": "C18.class-links", "C05.counted-operands": "C18.counted-operands"}, "a record selected from an array must map to the same projection / flavor classes as the array", None),
        ("c06", {"C06.extra-fields": "C18.extra-fields-constructed"}, "a field can only be carried through operations if the constructor kept it", None),
    ],
    "C19": [
        ("c06", {"C06.coordinate-dtypes": "C19.coordinate-dtypes"}, "every slice, mask, reshape and view re-validates the dtype in __array_finalize__: unsigned and narrow types must keep passing", None),
        ("c14", {"C14.numpy-item": "C19.item-access", "C14.numpy-finalize": "C19.finalize", "C14.tables": "C19.synonym-tables"},
         "indexing a NumPy vector array with a coordinate name or synonym goes through _getitem/_setitem and the synonym tables", None),
    ],
}


# rules applied by calling the rule function directly (cheap, no other check has to run)
KERNEL_PROPS = ("C01", "C02", "C08", "C09", "C10", "C11", "C12", "C13", "C15", "C17")


def apply(ctx, prop):
    if prop in KERNEL_PROPS:
        from .props import c03

        c03._duck_typed_kernels(ctx, f"{prop}.duck-typed-kernels")
    for modname, mapping, why, flt in SHARED.get(prop, []):
        mod = importlib.import_module(f"verifstat.props.{modname}")
        ctx.include(mod.run, mapping, why, flt)
