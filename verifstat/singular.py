"""Singular-point conventions of the unary compute modules (zero vector, on-axis, light-like, t = 0).

The NaN guards (`lib.nan_to_num(...)` with chosen replacement values), clamps and `copysign` conventions in the
accessor and unary kernels decide what a user sees at the points where the generic formula is 0/0 or x/0: eta of
the zero vector, z of (rho=0, theta=0), unit of the zero vector, t of a light-like tau-stored vector ...  These
values are behaviour (count_nonzero of padded arrays, round trips of zero vectors) but no algebraic identity sees
them: `nan_to_num(a / b)` and `nan_to_num(a) / b` are the same rational function.

This module evaluates each entry's inlined IR - IEEE point semantics implemented here, the library is not run -
at a fixed list of stored-coordinate points in which at least one coordinate group sits at a singular value, and
compares with `tables/singular.json`, frozen from the pinned tree and reviewed.  A value that was finite and is now
NaN/inf, or finite and different, or whose infinity changed sign, is reported; a frozen NaN that became finite is
not (an improvement cannot break a user relying on the old value being meaningful); a frozen exact infinity must stay that infinity; a frozen finite value beyond 1e12 (a float
pole such as 1/tan(pi)) only has to stay unbounded with the same sign.
"""
from __future__ import annotations

import json
import math

from . import ir
from .core import VERIF
from .entries import entries_of

PI = math.pi
INF = math.inf
SING = {
    "xy": [(0.0, 0.0)], "rhophi": [(0.0, 0.0), (0.0, 0.3)],
    "z": [(0.0,)], "theta": [(0.0,), (PI,)], "eta": [(INF,), (-INF,), (0.0,)],
    "t": [(0.0,)], "tau": [(0.0,)],
}
GEN = {
    "xy": [(-1.1, 0.6)], "rhophi": [(1.25, 2.6)],
    "z": [(-0.9,)], "theta": [(2.2,)], "eta": [(-0.67,)],
    "t": [(2.7,), (-2.7,)], "tau": [(1.9,), (-0.8,)],
}
GROUP_OF = {"x": "xy", "rho": "rhophi", "z": "z", "theta": "theta", "eta": "eta", "t": "t", "tau": "tau"}


def points_for(kinds):
    """stored-coordinate points for one operand: every combination of singular/generic values per group, except all-generic"""
    groups = []
    i = 0
    while i < len(kinds):
        g = GROUP_OF[kinds[i]]
        groups.append(g)
        i += 2 if g in ("xy", "rhophi") else 1
    out = []

    def rec(k, acc, any_sing):
        if k == len(groups):
            if any_sing:
                out.append(tuple(acc))
            return
        for v in SING[groups[k]]:
            rec(k + 1, acc + list(v), True)
        for v in GEN[groups[k]]:
            rec(k + 1, acc + list(v), any_sing)

    rec(0, [], False)
    return out


def _div(a, b):
    if b == 0:
        if a == 0 or a != a:
            return math.nan
        return math.copysign(INF, a) * (math.copysign(1.0, b))
    try:
        return a / b
    except OverflowError:
        return math.copysign(INF, a) * math.copysign(1.0, b)


def _f1(fn, v):
    try:
        return fn(v)
    except ValueError:
        return math.nan
    except OverflowError:
        return INF


def _log(v):
    if v != v or v < 0:
        return math.nan
    if v == 0:
        return -INF
    return math.log(v)


_FN = {
    "sqrt": lambda v: math.nan if (v != v or v < 0) else (INF if v == INF else math.sqrt(v)), "absolute": abs,
    "sin": lambda v: _f1(math.sin, v), "cos": lambda v: _f1(math.cos, v), "tan": lambda v: _f1(math.tan, v),
    "sinh": lambda v: _f1(math.sinh, v), "cosh": lambda v: _f1(math.cosh, v), "tanh": lambda v: _f1(math.tanh, v),
    "exp": lambda v: _f1(math.exp, v), "log": _log, "arctan": lambda v: _f1(math.atan, v), "arccos": lambda v: _f1(math.acos, v),
    "arcsin": lambda v: _f1(math.asin, v), "arcsinh": lambda v: _f1(math.asinh, v), "arctanh": lambda v: _f1(math.atanh, v), "arccosh": lambda v: _f1(math.acosh, v),
    "sign": lambda v: v if v != v else float((v > 0) - (v < 0)),
}


def ieee(n: ir.Node, env: dict, memo=None):
    """IEEE-754 point semantics of the compute IR (division by zero gives inf/nan, domain errors give nan)"""
    if memo is None:
        memo = {}
    r = memo.get(n.id)
    if r is not None:
        return r
    k = n.kind
    if k in ("param", "sym"):
        v = env[n.a[0]]
    elif k == "const":
        t, val = n.a
        v = float(val) if not isinstance(val, str) else float(val)
    elif k == "libattr":
        v = {"pi": PI, "inf": INF, "nan": math.nan}[n.a[0]]
    elif k == "neg":
        v = -ieee(n.a[0], env, memo)
    elif k == "not":
        v = float(not ieee(n.a[0], env, memo))
    elif k == "op":
        o, x, y = n.a
        a, b = ieee(x, env, memo), ieee(y, env, memo)
        if o == "+":
            v = a + b
        elif o == "-":
            v = a - b
        elif o == "*":
            v = a * b
        elif o == "/":
            v = _div(a, b)
        elif o == "**":
            try:
                v = a ** b
                if isinstance(v, complex):
                    v = math.nan
            except ZeroDivisionError:
                v = INF
            except OverflowError:
                v = INF
        elif o == "%":
            if b == 0 or a != a or b != b or abs(a) == INF:
                v = math.nan
            elif abs(b) == INF:
                v = a
            else:
                v = math.fmod(a, b)
                if v != 0 and (v < 0) != (b < 0):
                    v += b
        elif o == "&":
            v = float(bool(a) and bool(b))
        elif o == "|":
            v = float(bool(a) or bool(b))
        else:
            raise ValueError(o)
    elif k == "cmp":
        o, x, y = n.a
        a, b = ieee(x, env, memo), ieee(y, env, memo)
        v = float({"==": a == b, "!=": a != b, "<": a < b, ">": a > b, "<=": a <= b, ">=": a >= b}[o])
    elif k == "lib":
        name, args, kw = n.a
        av = [ieee(x, env, memo) for x in args]
        if name in _FN:
            v = _FN[name](*av)
        elif name == "arctan2":
            v = math.nan if (av[0] != av[0] or av[1] != av[1]) else math.atan2(av[0], av[1])
        elif name == "copysign":
            v = math.nan if av[0] != av[0] else math.copysign(av[0], av[1] if av[1] == av[1] else 1.0)
        elif name in ("maximum", "minimum"):
            v = math.nan if any(x != x for x in av) else (max(av) if name == "maximum" else min(av))
        elif name == "nan_to_num":
            v = av[0]
            kv = {kk: ieee(x, env, memo) for kk, x in kw}
            if v != v:
                v = kv.get("nan", 0.0)
            elif v == INF:
                v = kv.get("posinf", 1.7976931348623157e308)
            elif v == -INF:
                v = kv.get("neginf", -1.7976931348623157e308)
        elif name == "isclose":
            a, b, rtol, atol = av[:4]
            v = float(a == b or (abs(a - b) <= atol + rtol * abs(b)))
        else:
            raise ValueError(name)
    else:
        raise ValueError(k)
    memo[n.id] = v
    return v


def _key(pt):
    return ",".join("inf" if v == INF else "-inf" if v == -INF else "pi" if v == PI else repr(v) for v in pt)


def _enc(v):
    if v != v:
        return "nan"
    if v == INF:
        return "inf"
    if v == -INF:
        return "-inf"
    return v


def _dec(v):
    return {"nan": math.nan, "inf": INF, "-inf": -INF}.get(v, v) if isinstance(v, str) else float(v)


def unary_modules(L):
    out = []
    for mn in L.mods:
        es = entries_of(L, mn)
        if es and len(es[0].ops) == 1 and es[0].nextra == 0:
            out.append(mn)
    return out


def evaluate(L, modules=None):
    """{entry name: {point key: [values]}} for the unary, argument-free modules"""
    inl = ir.Inliner()
    table = {}
    for mn in unary_modules(L):
        if modules is not None and L.short(mn) not in modules:
            continue
        for e in entries_of(L, mn):
            node = inl.inline(e.fn, e.args())
            outs = ir.outputs(node)
            names = e.coord_names()
            rows = {}
            for pt in points_for(e.kinds[0]):
                env = dict(zip(names, pt))
                memo: dict = {}
                vals = []
                for o in outs:
                    try:
                        vals.append(_enc(ieee(o, env, memo)))
                    except (ValueError, KeyError, TypeError) as err:
                        vals.append(f"error:{type(err).__name__}")
                rows[_key(pt)] = vals
            table[e.name] = rows
    return table


def load_frozen():
    p = VERIF / "tables" / "singular.json"
    return json.loads(p.read_text()) if p.exists() else None


def compare(frozen_row, now_row):
    """list of (point, component, frozen, now) that count as changed conventions"""
    bad = []
    for pk, fv in frozen_row.items():
        nv = now_row.get(pk)
        if nv is None or len(nv) != len(fv):
            bad.append((pk, -1, fv, nv))
            continue
        for i, (a, b) in enumerate(zip(fv, nv)):
            if isinstance(a, str) and a.startswith("error") or isinstance(b, str) and b.startswith("error"):
                if a != b:
                    bad.append((pk, i, a, b))
                continue
            x, y = _dec(a), _dec(b)
            if x != x:
                continue  # a frozen NaN that became something else is not a broken convention
            # values beyond 1e12 come from a float pole (1/tan(pi)): only "unbounded, with this sign" is a convention
            ux, uy = abs(x) > 1e12, (y == y and abs(y) > 1e12)
            if abs(x) == INF and y != x:
                bad.append((pk, i, a, b))  # an exact infinity is a convention (z of theta = 0 is +inf, not the largest float)
            elif y != y or ux != uy or (ux and (x > 0) != (y > 0)):
                bad.append((pk, i, a, b))
            elif not ux and abs(x - y) > 1e-9 * (1 + abs(x)):
                bad.append((pk, i, a, b))
    return bad


def obligations(ctx, L, rule, modules=None):
    """one obligation per frozen entry: the singular-point values of the current tree agree with the frozen conventions"""
    frozen = load_frozen()
    if frozen is None:
        from .core import AnalysisError
        raise AnalysisError("tables/singular.json missing")
    now = evaluate(L, modules)
    n = 0
    for name, frow in sorted(frozen.items()):
        short = name.split("[")[0]
        if modules is not None and short not in modules:
            continue
        nrow = now.get(name)
        if nrow is None:
            continue  # entry no longer in the table: reported by C01.base-present / table-complete
        n += 1
        bad = compare(frow, nrow)
        msg = ""
        if bad:
            pk, i, a, b = bad[0]
            msg = (f"at stored coordinates ({pk}) result component {i} was {a} on the pinned tree and is now {b}"
                   + (f" (+{len(bad) - 1} more points)" if len(bad) > 1 else ""))
        ctx.ob(rule, name, not bad, msg, {"changed": [[pk, i, a, b] for pk, i, a, b in bad[:6]]} if bad else None, None,
               sample={"points": len(frow)})
    return n


# ---- special values of the scalar arguments (half turns, zero velocity, zero / negative factors) ------------------------

GEN2 = {"xy": (0.7, -1.3), "rhophi": (2.1, -0.4), "z": (0.4,), "theta": (0.9,), "eta": (0.35,), "t": (3.1,), "tau": (1.2,)}
SPECIAL = [0.0, 1.0, -1.0, PI, -PI, PI / 2, 0.5, -0.5]


def _generic_operand(kinds, second):
    out = []
    i = 0
    src = GEN2 if second else {k: v[0] for k, v in GEN.items()}
    while i < len(kinds):
        g = GROUP_OF[kinds[i]]
        out += list(src[g])
        i += 2 if g in ("xy", "rhophi") else 1
    return out


def _extra_tuples(n):
    if n == 1:
        return [(v,) for v in SPECIAL]
    gen = [0.3, -0.7, 1.1, 0.45]
    out = [tuple(0.0 for _ in range(n)), tuple(gen[:n])]
    for sp in (PI, PI / 2, 1.0, -1.0):
        for pos in range(n):
            out.append(tuple(sp if j == pos else gen[j] for j in range(n)))
            out.append(tuple(sp if j == pos else 0.0 for j in range(n)))
    return out


def special_modules(L):
    out = []
    for mn in L.mods:
        es = entries_of(L, mn)
        if es and 1 <= es[0].nextra <= 4 and len(es[0].ops) <= 2:
            out.append(mn)
    return out


def evaluate_special(L, modules=None):
    inl = ir.Inliner()
    table = {}
    for mn in special_modules(L):
        if modules is not None and not modules(L.short(mn)):
            continue
        for e in entries_of(L, mn):
            node = inl.inline(e.fn, e.args())
            outs = ir.outputs(node)
            names = e.coord_names()
            coords = []
            for oi, ks in enumerate(e.kinds):
                coords += _generic_operand(ks, oi == 1)
            rows = {}
            for ex in _extra_tuples(e.nextra):
                env = dict(zip(names, coords))
                env.update({f"extra{i}": v for i, v in enumerate(ex)})
                memo: dict = {}
                vals = []
                for o in outs:
                    try:
                        vals.append(_enc(ieee(o, env, memo)))
                    except (ValueError, KeyError, TypeError) as err:
                        vals.append(f"error:{type(err).__name__}")
                rows[_key(ex)] = vals
            table[e.name] = rows
    return table


def load_frozen_special():
    p = VERIF / "tables" / "special_args.json"
    return json.loads(p.read_text()) if p.exists() else None


def special_obligations(ctx, L, rule, modules):
    frozen = load_frozen_special()
    if frozen is None:
        from .core import AnalysisError
        raise AnalysisError("tables/special_args.json missing")
    now = evaluate_special(L, modules)
    n = 0
    for name, frow in sorted(frozen.items()):
        if not modules(name.split("[")[0]):
            continue
        nrow = now.get(name)
        if nrow is None:
            continue
        n += 1
        bad = compare(frow, nrow)
        msg = ""
        if bad:
            pk, i, a, b = bad[0]
            msg = (f"with scalar argument(s) ({pk}) result component {i} was {a} on the pinned tree and is now {b}" + (f" (+{len(bad) - 1} more)" if len(bad) > 1 else ""))
        ctx.ob(rule, name, not bad, msg, {"changed": [[pk, i, a, b] for pk, i, a, b in bad[:6]]} if bad else None, None, sample={"argument_tuples": len(frow)})
    return n
