"""Operator tables: (ufunc, operand kinds, dimension) -> action, extracted from the four backends.

object/numpy/sympy: the if/elif chain of ``__array_ufunc__``.
awkward: the module-level ``behavior[ufunc, left, right] = lambda ...`` assignments, with the
literal ``for`` loops unrolled by a small partial evaluator.
"""
from __future__ import annotations

import ast
import copy
import itertools

from .core import AnalysisError
from .loader import return_text, facts, unparse

BACKENDS = {
    "object": ("src/vector/backends/object.py", "VectorObject"),
    "numpy": ("src/vector/backends/numpy.py", "VectorNumpy"),
    "sympy": ("src/vector/backends/sympy.py", "VectorSympy"),
}
AWKWARD = "src/vector/backends/awkward.py"

DIMCLASS = {"Vector2D": 2, "Vector3D": 3, "Vector4D": 4}
NORM = {2: "rho", 3: "mag", 4: "tau"}


def _conj(test):
    if isinstance(test, ast.BoolOp) and isinstance(test.op, ast.And):
        out = []
        for v in test.values:
            out.extend(_conj(v))
        return out
    return [test]


class Branch:
    def __init__(self, ufunc, kinds, action, line, out_handling):
        self.ufunc = ufunc
        self.kinds = kinds  # tuple of 'V' / 'S'
        self.action = action  # ('expr', text) | ('bydim', {2:..,3:..,4:..})
        self.line = line
        self.out_handling = out_handling  # 'replace' | 'reject' | 'none'

    def as_dict(self):
        return {"ufunc": self.ufunc, "kinds": "".join(self.kinds), "action": self.action, "line": self.line, "out": self.out_handling}


def _bydim(stmts):
    """if isinstance(inputs[0], Vector2D): return A elif ...3D: return B elif ...4D: return C"""
    out = {}
    for st in stmts:
        if isinstance(st, ast.If):
            cur = st
            while True:
                t = cur.test
                if not (isinstance(t, ast.Call) and unparse(t.func) == "isinstance" and unparse(t.args[0]) == "inputs[0]"
                        and unparse(t.args[1]) in DIMCLASS):
                    break
                if len(cur.body) == 1 and isinstance(cur.body[0], ast.Return):
                    out[DIMCLASS[unparse(t.args[1])]] = unparse(cur.body[0].value)
                if len(cur.orelse) == 1 and isinstance(cur.orelse[0], ast.If):
                    cur = cur.orelse[0]
                else:
                    break
    return out


def _expand_predicate(mf, cond):
    """`helper(inputs)` where helper(p) is `return <conjunction over p>`: the conjuncts with p replaced by the argument"""
    if isinstance(cond, ast.Call) and isinstance(cond.func, ast.Name) and len(cond.args) == 1 and not cond.keywords:
        fdef = mf.functions.get(cond.func.id)
        if fdef is not None and len(fdef.args.args) == 1:
            fb = [x for x in fdef.body if not (isinstance(x, ast.Expr) and isinstance(x.value, ast.Constant))]
            if len(fb) == 1 and isinstance(fb[0], ast.Return) and fb[0].value is not None:
                env = {fdef.args.args[0].arg: cond.args[0]}
                body = _Sub(env).visit(copy.deepcopy(fb[0].value))
                return _conj(body)
    return [cond]


def _is_fill_call(mf, call) -> bool:
    """call is `<helper>(outputs, result)` and <helper>(outs, res) is `for o in outs: _replace_data(o, res)` followed by `return res`"""
    if not (isinstance(call, ast.Call) and isinstance(call.func, ast.Name) and [unparse(a) for a in call.args] == ["outputs", "result"] and not call.keywords):
        return False
    fn = mf.functions.get(call.func.id)
    if fn is None or len(fn.args.args) != 2:
        return False
    outs, res = (a.arg for a in fn.args.args)
    body = [st for st in fn.body if not (isinstance(st, ast.Expr) and isinstance(st.value, ast.Constant))]
    if len(body) != 2 or not isinstance(body[0], ast.For) or not isinstance(body[1], ast.Return):
        return False
    loop = body[0]
    return (unparse(loop.iter) == outs and isinstance(loop.target, ast.Name) and len(loop.body) == 1 and not loop.orelse
            and unparse(loop.body[0]) == f"_replace_data({loop.target.id}, {res})" and unparse(body[1].value) == res)


def extract_array_ufunc(backend: str, repo=None):
    rel, cls = BACKENDS[backend]
    mf = facts(rel, repo)
    fn = mf.method(cls, "__array_ufunc__")
    if fn is None:
        raise AnalysisError(f"anchor {cls}.__array_ufunc__ missing in {rel}")
    branches: list[Branch] = []
    chain = None
    for st in fn.body:
        if isinstance(st, ast.If) and "ufunc is numpy." in unparse(st.test):
            chain = st
            break
    if chain is None:
        raise AnalysisError(f"{cls}.__array_ufunc__: no `ufunc is numpy.X` chain found")
    has_else_notimpl = False
    cur = chain
    while True:
        conds = []
        for c0 in _conj(cur.test):
            conds.extend(_expand_predicate(mf, c0))
        uf = None
        nin = None
        kinds: dict[int, str] = {}
        for cnd in conds:
            s = unparse(cnd)
            if isinstance(cnd, ast.Compare) and s.startswith("ufunc is numpy."):
                uf = s[len("ufunc is numpy."):]
            elif s.startswith("len(inputs) == "):
                nin = int(s[len("len(inputs) == "):])
            elif isinstance(cnd, ast.Call) and unparse(cnd.func) == "isinstance" and unparse(cnd.args[1]) == "Vector":
                kinds[int(unparse(cnd.args[0])[len("inputs["):-1])] = "V"
            elif isinstance(cnd, ast.UnaryOp) and isinstance(cnd.op, ast.Not) and isinstance(cnd.operand, ast.Call) \
                    and unparse(cnd.operand.func) == "isinstance" and unparse(cnd.operand.args[1]) == "Vector":
                kinds[int(unparse(cnd.operand.args[0])[len("inputs["):-1])] = "S"
            else:
                raise AnalysisError(f"{cls}.__array_ufunc__ line {cur.lineno}: unrecognised condition `{s}`")
        if uf is None or nin is None or sorted(kinds) != list(range(nin)):
            raise AnalysisError(f"{cls}.__array_ufunc__ line {cur.lineno}: incomplete branch condition")
        body = cur.body
        outh = "none"
        action = None
        rest = []
        for st in body:
            if isinstance(st, ast.If) and unparse(st.test) == "len(outputs) != 0" and len(st.body) == 1 and isinstance(st.body[0], ast.Raise):
                outh = "reject"
            else:
                rest.append(st)
        if len(rest) == 1 and isinstance(rest[0], ast.Return):
            action = ("expr", unparse(rest[0].value))
        elif rest and isinstance(rest[0], ast.Assign) and unparse(rest[0].targets[0]) == "result" \
                and isinstance(rest[-1], ast.Return) and unparse(rest[-1].value) == "result":
            action = ("expr", unparse(rest[0].value))
            if any(isinstance(s, ast.For) and unparse(s.iter) == "outputs" for s in rest[1:-1]):
                outh = "replace"
        elif len(rest) == 2 and isinstance(rest[0], ast.Assign) and unparse(rest[0].targets[0]) == "result" \
                and isinstance(rest[1], ast.Return) and _is_fill_call(mf, rest[1].value):
            # `result = <expr>; return <helper>(outputs, result)` with a helper that fills every output and returns the result
            action = ("expr", unparse(rest[0].value))
            outh = "replace"
        else:
            bd = _bydim(rest)
            if bd:
                action = ("bydim", bd)
        if action is None:
            raise AnalysisError(f"{cls}.__array_ufunc__ line {cur.lineno}: unrecognised branch body for numpy.{uf}")
        branches.append(Branch(uf, tuple(kinds[i] for i in range(nin)), action, cur.lineno, outh))
        if len(cur.orelse) == 1 and isinstance(cur.orelse[0], ast.If):
            cur = cur.orelse[0]
            continue
        if len(cur.orelse) == 1 and isinstance(cur.orelse[0], ast.Return) and unparse(cur.orelse[0].value) == "NotImplemented":
            has_else_notimpl = True
        break
    return branches, has_else_notimpl, fn


# ---------------------------------------------------------------------------------------
# awkward behaviors
# ---------------------------------------------------------------------------------------

class _Sub(ast.NodeTransformer):
    def __init__(self, env):
        self.env = env

    def visit_Name(self, node):
        if node.id in self.env:
            return copy.deepcopy(self.env[node.id])
        return node


def _lambda_text(lam: ast.Lambda):
    """lambda v1, v2: body  ->  body with parameters renamed inputs[i]"""
    names = [a.arg for a in lam.args.args]
    env = {n: ast.parse(f"inputs[{i}]", mode="eval").body for i, n in enumerate(names)}
    body = _Sub(env).visit(copy.deepcopy(lam.body))
    return len(names), unparse(body)


def extract_awkward_behaviors(repo=None):
    """returns dict key(tuple of str) -> (nargs, action text, line) for every behavior[...] = lambda / name assignment"""
    mf = facts(AWKWARD, repo)
    table: dict = {}

    def keytext(node, env):
        node = _Sub(env).visit(copy.deepcopy(node))
        if isinstance(node, ast.Constant):
            return repr(node.value)
        if isinstance(node, ast.JoinedStr):
            # f"Vector{dim}D" with dim substituted
            parts = []
            for v in node.values:
                if isinstance(v, ast.Constant):
                    parts.append(str(v.value))
                elif isinstance(v, ast.FormattedValue) and isinstance(v.value, ast.Constant):
                    parts.append(str(v.value.value))
                else:
                    return unparse(node)
            return repr("".join(parts))
        return unparse(node)

    def is_type_expr(node, env):
        node = _Sub(env).visit(copy.deepcopy(node))
        return isinstance(node, (ast.Name, ast.Attribute))

    def ev_test(test, env):
        s = unparse(test)
        if s == "not (isinstance(left, type) and isinstance(right, type))":
            return not (is_type_expr(ast.Name("left"), env) and is_type_expr(ast.Name("right"), env))
        raise AnalysisError(f"awkward.py module level: cannot fold condition `{s}`")

    module_tuples = {st.targets[0].id: st.value for st in mf.tree.body
                     if isinstance(st, ast.Assign) and len(st.targets) == 1 and isinstance(st.targets[0], ast.Name) and isinstance(st.value, (ast.Tuple, ast.List))}

    def tuple_display(node, depth=0):
        """a tuple display, or a module-level name bound once to one; `*name` members are expanded (the loops over record names are often written with constants)"""
        if isinstance(node, ast.Name) and node.id in module_tuples and depth < 4:
            node = module_tuples[node.id]
        if not isinstance(node, (ast.Tuple, ast.List)):
            return node
        elts = []
        for e in node.elts:
            if isinstance(e, ast.Starred):
                inner = tuple_display(e.value, depth + 1)
                if not isinstance(inner, (ast.Tuple, ast.List)):
                    return node
                elts.extend(inner.elts)
            else:
                elts.append(e)
        return ast.Tuple(elts=elts, ctx=ast.Load())

    def run(stmts, env):
        for st in stmts:
            if isinstance(st, ast.Assign) and len(st.targets) == 1 and isinstance(st.targets[0], ast.Subscript) \
                    and unparse(st.targets[0].value) == "behavior":
                sl = st.targets[0].slice
                elts = sl.elts if isinstance(sl, ast.Tuple) else [sl]
                key = tuple(keytext(e, env) for e in elts)
                val = _Sub(env).visit(copy.deepcopy(st.value))
                if isinstance(val, ast.Name):
                    # a named module-level function whose body is one return is the same thing as the lambda it replaces
                    fdef = mf.functions.get(val.id)
                    if fdef is not None and not fdef.args.kwonlyargs and not fdef.args.vararg and not fdef.args.kwarg and not fdef.args.defaults:
                        fb = [x for x in fdef.body if not (isinstance(x, ast.Expr) and isinstance(x.value, ast.Constant))]
                        if len(fb) == 1 and isinstance(fb[0], ast.Return) and fb[0].value is not None:
                            val = ast.Lambda(args=fdef.args, body=fb[0].value)
                if isinstance(val, ast.Lambda):
                    n, txt = _lambda_text(val)
                    table[key] = (n, txt, st.lineno, val)
                else:
                    table[key] = (None, unparse(val), st.lineno, val)
            elif isinstance(st, ast.For) and isinstance(tuple_display(st.iter), ast.Tuple):
                for item in tuple_display(st.iter).elts:
                    env2 = dict(env)
                    if isinstance(st.target, ast.Name):
                        env2[st.target.id] = item
                    elif isinstance(st.target, ast.Tuple) and isinstance(item, ast.Tuple):
                        for t, v in zip(st.target.elts, item.elts):
                            env2[t.id] = v
                    else:
                        raise AnalysisError(f"awkward.py line {st.lineno}: unsupported loop target")
                    run(st.body, env2)
            elif isinstance(st, ast.For) and isinstance(st.iter, ast.Call) and unparse(st.iter.func) == "range":
                # for dim in range(2, 5): ...
                try:
                    rng = eval(unparse(st.iter), {"range": range, "__builtins__": {}})  # literal range only
                except Exception as e:  # noqa: BLE001
                    raise AnalysisError(f"awkward.py line {st.lineno}: unsupported loop iterable {unparse(st.iter)}") from e
                for v in rng:
                    env2 = dict(env)
                    env2[st.target.id] = ast.Constant(v)
                    run(st.body, env2)
            elif isinstance(st, ast.If):
                has_behavior = any(isinstance(x, ast.Subscript) and unparse(x.value) == "behavior" for x in ast.walk(st))
                if has_behavior:
                    if ev_test(st.test, env):
                        run(st.body, env)
                    else:
                        run(st.orelse, env)

    run(mf.tree.body, {})
    return table


# ---------------------------------------------------------------------------------------
# specification (transcribed from the documentation: README/docs "operators" and C05/C11 statements)
# ---------------------------------------------------------------------------------------

def spec_action(ufunc, kinds, dim, backend):
    """normalised action text(s) accepted for (ufunc, operand kinds, dimension)"""
    N = NORM[dim]
    k = "".join(kinds)
    table = {
        ("absolute", "V"): [f"inputs[0].{N}"],
        ("square", "V"): [f"inputs[0].{N}2"],
        ("sqrt", "V"): [f"inputs[0].{N}2 ** 0.25"],
        ("cbrt", "V"): [f"inputs[0].{N}2 ** 0.16666666666666666"],
        ("power", "VS"): ["numpy.absolute(inputs[0]) ** inputs[1]",
                          f"inputs[0].{N}2 if inputs[1] == 2 else inputs[0].{N} ** inputs[1]"],
        ("add", "VV"): ["inputs[0].add(inputs[1])"],
        ("subtract", "VV"): ["inputs[0].subtract(inputs[1])"],
        ("multiply", "VS"): ["inputs[0].scale(inputs[1])"],
        ("multiply", "SV"): ["inputs[1].scale(inputs[0])"],
        ("negative", "V"): ["inputs[0].scale(-1)"],
        ("positive", "V"): ["inputs[0]"],
        ("true_divide", "VS"): ["inputs[0].scale(1 / inputs[1])"],
        ("matmul", "VV"): ["inputs[0].dot(inputs[1])"],
        ("equal", "VV"): ["inputs[0].equal(inputs[1])"],
        ("not_equal", "VV"): ["inputs[0].not_equal(inputs[1])"],
    }
    return table.get((ufunc, k))


SPEC_KEYS = [
    ("absolute", "V"), ("square", "V"), ("sqrt", "V"), ("cbrt", "V"), ("power", "VS"), ("add", "VV"),
    ("subtract", "VV"), ("multiply", "VS"), ("multiply", "SV"), ("negative", "V"), ("positive", "V"),
    ("true_divide", "VS"), ("matmul", "VV"), ("equal", "VV"), ("not_equal", "VV"),
]
NORM_UFUNCS = {"absolute", "square", "sqrt", "cbrt", "power"}
AWK_NAMES = ["Vector2D", "Vector3D", "Vector4D", "Momentum2D", "Momentum3D", "Momentum4D"]
AWK_OBJ = ["VectorObject2D", "VectorObject3D", "VectorObject4D"]


def table_obligations(ctx, rule, only_ufuncs=None, backends=None):
    """one obligation per (backend, ufunc, kinds, dimension)"""
    n = 0
    for backend in BACKENDS:
        if backends is not None and backend not in backends:
            continue
        branches, has_else, fn = extract_array_ufunc(backend, ctx.repo)
        rel = BACKENDS[backend][0]
        by = {}
        for b in branches:
            by.setdefault((b.ufunc, "".join(b.kinds)), []).append(b)
        for (uf, k) in SPEC_KEYS:
            if only_ufuncs is not None and uf not in only_ufuncs:
                continue
            bs = by.get((uf, k), [])
            for dim in (2, 3, 4):
                want = spec_action(uf, tuple(k), dim, backend)
                cname = f"{backend}.__array_ufunc__[numpy.{uf}/{k}/{dim}D]"
                if len(bs) != 1:
                    ctx.ob(rule, cname, False, f"expected exactly one branch for numpy.{uf} with operand kinds {k}, found {len(bs)}", None, rel)
                    continue
                b = bs[0]
                got = b.action[1] if b.action[0] == "expr" else b.action[1].get(dim)
                ctx.ob(rule, cname, got in want, f"branch computes `{got}`, documented meaning is `{want[0]}`",
                       b.as_dict(), f"{rel}:{b.line}", sample=b.as_dict())
                n += 1
        if only_ufuncs is None:
            extra = sorted(set(by) - set(SPEC_KEYS))
            ctx.ob(rule, f"{backend}.__array_ufunc__ coverage", not extra and has_else,
                   f"branches outside the documented operator set: {extra}" if extra else "missing final `return NotImplemented`",
                   None, rel)
    tab = extract_awkward_behaviors(ctx.repo)
    for (uf, k) in SPEC_KEYS:
        if only_ufuncs is not None and uf not in only_ufuncs:
            continue
        if k == "VV":
            ops = AWK_NAMES + AWK_OBJ
            pairs = [(l, r) for l in ops for r in ops if not (l in AWK_OBJ and r in AWK_OBJ)]
            for l, r in pairs:
                key = (f"numpy.{uf}", repr(l) if l in AWK_NAMES else l, repr(r) if r in AWK_NAMES else r)
                ent = tab.get(key)
                want = spec_action(uf, ("V", "V"), 2, "awkward")
                ctx.ob(rule, f"awkward.behavior[numpy.{uf}, {l}, {r}]", ent is not None and ent[1] in want,
                       f"behavior entry is `{ent[1] if ent else None}`, documented meaning is `{want[0]}`", None,
                       f"{AWKWARD}:{ent[2]}" if ent else AWKWARD)
                n += 1
        else:
            for name in AWK_NAMES:
                dim = int(name[-2])
                if k == "V":
                    key = (f"numpy.{uf}", repr(name))
                elif k == "VS":
                    key = (f"numpy.{uf}", repr(name), "numbers.Real")
                else:
                    key = (f"numpy.{uf}", "numbers.Real", repr(name))
                ent = tab.get(key)
                want = spec_action(uf, tuple(k), dim, "awkward")
                ctx.ob(rule, f"awkward.behavior[numpy.{uf}, {name}/{k}]", ent is not None and ent[1] in want,
                       f"behavior entry is `{ent[1] if ent else None}`, documented meaning is `{want[0]}`", None,
                       f"{AWKWARD}:{ent[2]}" if ent else AWKWARD, sample={"key": key, "action": ent[1] if ent else None})
                n += 1
    return n


def norm_ufunc_obligations(ctx, rule):
    n = table_obligations(ctx, rule, NORM_UFUNCS)
    ctx.anchor("norm ufunc table entries", n, 3 * 5 * 3 + 5 * 6)


# ---------------------------------------------------------------------------------------
# dunder methods -> ufunc calls
# ---------------------------------------------------------------------------------------

DUNDER_SPEC = {
    "__eq__": ["numpy.equal(self, other)"],
    "__ne__": ["numpy.not_equal(self, other)"],
    "__abs__": ["numpy.absolute(self)"],
    "__add__": ["numpy.add(self, other)"],
    "__radd__": ["numpy.add(other, self)"],
    "__iadd__": ["_replace_data(self, numpy.add(self, other))"],
    "__sub__": ["numpy.subtract(self, other)"],
    "__rsub__": ["numpy.subtract(other, self)"],
    "__isub__": ["_replace_data(self, numpy.subtract(self, other))"],
    "__mul__": ["numpy.multiply(self, other)"],
    "__rmul__": ["numpy.multiply(other, self)"],
    "__imul__": ["_replace_data(self, numpy.multiply(self, other))"],
    "__neg__": ["numpy.negative(self)"],
    "__pos__": ["numpy.positive(self)"],
    "__truediv__": ["numpy.true_divide(self, other)"],
    "__rtruediv__": ["numpy.true_divide(other, self)"],
    "__itruediv__": ["_replace_data(self, numpy.true_divide(self, other))"],
    "__pow__": ["numpy.square(self) if other == 2 else numpy.power(self, other)", "numpy.power(self, other)"],
    "__matmul__": ["numpy.matmul(self, other)"],
}
INPLACE = ("__iadd__", "__isub__", "__imul__", "__itruediv__")


def dunder_obligations(ctx, rule, backends=("object", "sympy", "numpy"), names=None):
    n = 0
    for backend in backends:
        rel, cls = BACKENDS[backend]
        mf = facts(rel, ctx.repo)
        for name, want in DUNDER_SPEC.items():
            if names is not None and name not in names:
                continue
            fn = mf.method(cls, name)
            if fn is None:
                if backend == "numpy" and name not in ("__eq__", "__ne__"):
                    continue  # ndarray's own operators route through __array_ufunc__
                ctx.ob(rule, f"{cls}.{name}", False, "operator method missing", None, rel)
                continue
            rt = return_text(fn)  # single-assignment locals inlined: `tmp = numpy.add(self, other); return f(self, tmp)` reads `return f(self, numpy.add(self, other))`
            got = rt[len("return "):] if rt and rt.startswith("return ") else unparse(fn)[:120]
            ctx.ob(rule, f"{cls}.{name}", got in want, f"body is `{got}`, documented meaning is `{want[0]}`", None,
                   f"{rel}:{fn.lineno}", sample={"method": name, "body": got})
            n += 1
    return n
