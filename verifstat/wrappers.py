"""Summaries of the _wrap_result implementations by abstract interpretation.

For a handler class H (dimension Ds, stored coordinate classes), a `returns` list R, num_vecargs and a
flavor class `cls`, the summary is

    (kind, projection, coords, extras)

kind        'scalar' | 'vector' | 'raise:<exc>'
projection  name of the class the result is viewed / constructed as (or the Awkward record name)
coords      {generic coordinate name: source}  source = 'result[i]' | 'self.<group>' | 'self[<field>]'
extras      [(field name, source)] carried along (Awkward only)
"""
from __future__ import annotations

import ast

from .core import AnalysisError
from .peval import (BUILTINS, ClassVal, External, FuncVal, Inst, Interp, Opaque, PyRaise, Undecided, World)

COORD_NAMES = {
    "AzimuthalXY": ("x", "y"), "AzimuthalRhoPhi": ("rho", "phi"), "LongitudinalZ": ("z",), "LongitudinalTheta": ("theta",),
    "LongitudinalEta": ("eta",), "TemporalT": ("t",), "TemporalTau": ("tau",),
}
AZS = ("AzimuthalXY", "AzimuthalRhoPhi")
LOS = ("LongitudinalZ", "LongitudinalTheta", "LongitudinalEta")
TES = ("TemporalT", "TemporalTau")
GROUPS = ("azimuthal", "longitudinal", "temporal")
BACKEND_PREFIX = {"object": "Object", "numpy": "Numpy", "sympy": "Sympy"}


def returns_shapes():
    """every shape of `returns` that occurs in a table or an explicit _wrap_result call: lists of class names / None / float / bool"""
    out = [["float"], ["bool"]]
    for a in AZS:
        out.append([a])
        out.append([a, None])
        for lo in LOS:
            out.append([a, lo])
            out.append([a, lo, None])
            for t in TES:
                out.append([a, lo, t])
    return out


def spec_summary(ds, self_classes, R, flavor, backend):
    """documented meaning of a `returns` shape for a handler of dimension ds storing self_classes (names of generic classes)"""
    if R in (["float"], ["bool"]):
        return ("scalar", None, None)
    classes = [r for r in R if r is not None]
    trailing_none = len(R) - len(classes)
    if len(classes) == 1:
        dim = 2 if trailing_none else ds
    elif len(classes) == 2:
        dim = 3 if trailing_none else max(3, ds)
    else:
        dim = 4
    coords = {}
    i = 0
    for c in classes:
        for nm in COORD_NAMES[c]:
            coords[nm] = f"result[{i}]"
            i += 1
    for gi in range(len(classes), dim - 1):
        # pass-through of the stored higher group
        for nm in COORD_NAMES[self_classes[gi]]:
            coords[nm] = f"self.{GROUPS[gi]}.{nm}"
    return ("vector", dim, coords)


# ---- object / sympy ------------------------------------------------------------------------------

def _mk_returns(W: World, R):
    out = []
    for r in R:
        if r is None:
            out.append(None)
        elif r in ("float", "bool"):
            out.append(External(f"builtins.{r}"))
        else:
            out.append(W.classes[r])
    return out


def _abstract_self(W, cname, self_classes, backend):
    self = Inst(W.classes[cname], {"__name__": "self"}, origin="abstract")
    pre = BACKEND_PREFIX.get(backend, "Awkward")
    for grp, gc in zip(GROUPS, self_classes):
        ccls = W.classes[gc.replace("Azimuthal", f"Azimuthal{pre}").replace("Longitudinal", f"Longitudinal{pre}").replace("Temporal", f"Temporal{pre}")]
        self.attrs[grp] = Inst(ccls, {"__name__": f"self.{grp}"}, origin="abstract")
    return self


def _src(v):
    """normalise an abstract value to a source description"""
    if isinstance(v, Opaque):
        t = v.tag
        if isinstance(t, tuple) and t and t[0] == "item" and t[1] == "result":
            return f"result[{t[2]}]"
        if isinstance(t, tuple) and t and t[0] == "item" and t[1] == "self":
            return f"self[{t[2]!r}]"
        if isinstance(t, tuple) and t and t[0] == "attr" and isinstance(t[1], str) and t[1].startswith("self."):
            return f"{t[1]}.{t[2]}"
        if isinstance(t, str) and t.startswith("result["):
            return t
        return repr(v)
    if isinstance(v, Inst) and v.origin == "abstract":
        return v.attrs.get("__name__", repr(v))
    return repr(v)


def summarize_objectlike(W: World, backend: str, dim: int, self_classes, R, num_vecargs, cls_name):
    """object and sympy backends: the result is a constructed instance"""
    pre = BACKEND_PREFIX[backend]
    hname = f"Vector{pre}{dim}D"
    self = _abstract_self(W, hname, self_classes, backend)
    fn, cv = W.find_method(hname, "_wrap_result")
    if fn is None:
        raise AnalysisError(f"anchor {hname}._wrap_result missing")
    I = Interp(W)
    result = Opaque("result", "notnone")
    try:
        r = I.call_function(FuncVal(fn, cv.module, bound=self, owner=cv), [W.classes[cls_name], result, _mk_returns(W, R), num_vecargs], {})
    except PyRaise as e:
        return (f"raise:{e.exc}", None, None, [])
    if isinstance(r, Opaque) and r.tag == "result":
        return ("scalar", None, None, [])
    if not isinstance(r, Inst):
        return ("other", repr(r), None, [])
    coords = {}
    for grp in GROUPS:
        c = r.attrs.get(grp)
        if c is None:
            continue
        if isinstance(c, Inst) and c.origin == "abstract":
            # pass-through of self's own coordinate object
            gname = c.attrs.get("__name__", "?")
            base = c.cls.name.replace(pre, "")
            for nm in COORD_NAMES.get(base, ()):
                coords[nm] = f"{gname}.{nm}"
        elif isinstance(c, Inst):
            base = c.cls.name.replace(pre, "")
            fields = COORD_NAMES.get(base)
            if fields is None or list(c.attrs) != list(fields):
                coords[f"<{grp}>"] = repr(c)
            else:
                for nm in fields:
                    coords[nm] = _src(c.attrs[nm])
        else:
            coords[f"<{grp}>"] = repr(c)
    return ("vector", r.cls.name, coords, [])


# ---- numpy -----------------------------------------------------------------------------------------

def summarize_numpy(W: World, dim: int, self_classes, R, num_vecargs, cls_name):
    hname = f"VectorNumpy{dim}D"
    self = _abstract_self(W, hname, self_classes, "numpy")
    self.attrs["dtype"] = Opaque("self.dtype", "notnone")
    fn, cv = W.find_method(hname, "_wrap_result")
    if fn is None:
        raise AnalysisError(f"anchor {hname}._wrap_result missing")
    env = W.module_env("vector.backends.numpy")
    saved = {k: env.get(k) for k in ("_shape_of", "_toarrays")}
    env["_shape_of"] = ("builtin", "__opaque_shape__")
    env["_toarrays"] = ("builtin", "__identity__")
    empties = []

    def m_empty(I, args, kwargs):
        empties.append((args, kwargs))
        return Opaque(("numpy.empty", len(empties) - 1), "ndarray")

    I = Interp(W, ext_models={"numpy.empty": m_empty})
    n = sum(len(COORD_NAMES[r]) for r in R if r in COORD_NAMES)
    result = tuple(Opaque(f"result[{i}]", "ndarray") for i in range(n)) if n else Opaque("result", "notnone")
    try:
        r = I.call_function(FuncVal(fn, cv.module, bound=self, owner=cv), [W.classes[cls_name], result, _mk_returns(W, R), num_vecargs], {})
    except PyRaise as e:
        return (f"raise:{e.exc}", None, None, [])
    finally:
        for k, v in saved.items():
            env[k] = v
    if r is result:
        return ("scalar", None, None, [])
    proj = None
    if isinstance(r, Opaque) and isinstance(r.tag, tuple) and r.tag[0] == "call":
        args = r.tag[2]
        if args and isinstance(args[0], ClassVal):
            proj = args[0].name
    coords = {}
    dtype_names = None
    for ev in I.trace:
        if ev[0] == "setitem-opaque":
            src = ev[3]
            coords[ev[2]] = _src(src).replace("self['", "self.").replace("']", "") if isinstance(src, Opaque) else repr(src)
    # normalise pass-through sources self[name] -> self.<group>.<name>
    for k, v in list(coords.items()):
        if v.startswith("self[") or (v.startswith("self.") and v.count(".") == 1):
            nm = v[5:].strip("'[]\"")
            for gi, gc in enumerate(self_classes):
                if nm in COORD_NAMES[gc]:
                    coords[k] = f"self.{GROUPS[gi]}.{nm}"
    # dtype of each output field must come from the same source as its value
    if len(empties) == 1:
        dt = empties[0][1].get("dtype", empties[0][0][1] if len(empties[0][0]) > 1 else None)
        if isinstance(dt, list):
            names = [d[0] if isinstance(d, tuple) and d else None for d in dt]
            if names != list(coords):
                coords["<dtype order>"] = f"dtype fields {names} differ from the stored fields {list(coords)}"
            for d in dt:
                if not (isinstance(d, tuple) and len(d) == 2):
                    coords["<dtype>"] = repr(d)
                    continue
                nm, src = d
                want = coords.get(nm)
                t = src.tag if isinstance(src, Opaque) else None
                if isinstance(t, tuple) and t[0] == "attr" and t[2] == "dtype" and isinstance(t[1], str) and t[1].startswith("result["):
                    got = t[1]
                elif isinstance(t, tuple) and t[0] == "item" and t[1] == "self.dtype":
                    got = None
                    for gi, gc in enumerate(self_classes):
                        if t[2] in COORD_NAMES[gc]:
                            got = f"self.{GROUPS[gi]}.{t[2]}"
                else:
                    got = repr(src)
                if want is not None and got != want:
                    coords[f"<dtype of {nm}>"] = f"{got} (value comes from {want})"
        else:
            coords["<dtype>"] = repr(dt)[:80]
    elif len(empties) != 1:
        coords["<alloc>"] = f"{len(empties)} numpy.empty calls"
    return ("vector", proj, coords, [])


BUILTINS["__opaque_shape__"] = lambda I, args, kwargs, node: Opaque("shape", "notnone")
BUILTINS["__identity__"] = lambda I, args, kwargs, node: args[0]


# ---- awkward ---------------------------------------------------------------------------------------

def _next(I, args, kwargs, node):
    items = I.iterate(args[0])
    if not items:
        if len(args) > 1:
            return args[1]
        raise PyRaise("StopIteration", "")
    return items[0]


BUILTINS["next"] = _next


def summarize_awkward(W: World, fields, R, num_vecargs, cls_name, handler="VectorArray4D"):
    """fields: the field names of self (any spellings + extras)"""
    self = Inst(W.classes[handler], {"__name__": "self"}, origin="abstract")
    fn, cv = W.find_method(handler, "_wrap_result")
    if fn is None:
        raise AnalysisError(f"anchor {handler}._wrap_result missing")
    zips = []

    def m_fields(I, args, kwargs):
        return list(fields)

    def m_zip(I, args, kwargs):
        zips.append((args, kwargs))
        return Opaque(("zipped", len(zips) - 1), "akarray")

    def m_bcast(I, args, kwargs):
        return list(args)

    models = {"awkward.fields": m_fields, "awkward.zip": m_zip, "awkward.broadcast_arrays": m_bcast}
    I = Interp(W, ext_models=models)
    n = sum(len(COORD_NAMES[r]) for r in R if r in COORD_NAMES)
    result = tuple(Opaque(f"result[{i}]", "akarray") for i in range(n)) if n else Opaque("result", "notnone")
    try:
        r = I.call_function(FuncVal(fn, cv.module, bound=self, owner=cv), [W.classes[cls_name], result, _mk_returns(W, R), num_vecargs], {})
    except PyRaise as e:
        return (f"raise:{e.exc}", None, None, [])
    if r is result:
        return ("scalar", None, None, [])
    if len(zips) != 1:
        return ("other", f"{len(zips)} ak.zip calls", None, [])
    args, kwargs = zips[0]
    d = args[0]
    if not isinstance(d, dict):
        return ("other", "ak.zip argument is not a dict", None, [])
    coords = {}
    extras = []
    generic = {n for v in COORD_NAMES.values() for n in v}
    for k, v in d.items():
        s = _src(v)
        if s.startswith("result["):
            coords[k] = s
        else:
            extras.append((k, s))
    meta = {
        "with_name": kwargs.get("with_name"),
        "depth_limit": _src(kwargs.get("depth_limit")) if kwargs.get("depth_limit") is not None else None,
        "behavior": _src(kwargs.get("behavior")) if kwargs.get("behavior") is not None else None,
    }
    return ("vector", meta["with_name"], coords, extras, meta)
